(* C09: relabelling the hypotheses (permuting pvalues and the columns of distr together) permutes the output
   of fwer_minp identically. *)
From PV Require Import Lib.Base Model.Npc Proofs.QLemmas Proofs.NpcProofs Proofs.FwerProofs Proofs.NpcRelabel.
From Coq Require Import Lqa Lia Permutation.
Open Scope Q_scope.

Definition compose (sigma ord' : list nat) : list nat := map (fun i => nth i sigma 0%nat) ord'.

Lemma take_cols_compose sigma ord' (r : list Q) : (forall i, In i ord' -> (i < length sigma)%nat) ->
  take_cols ord' (take_cols sigma r) = take_cols (compose sigma ord') r.
Proof.
  intros H. unfold compose. unfold take_cols at 1 3. rewrite map_map. apply map_ext_in. intros i Hi.
  apply nth_take_cols. apply H. exact Hi.
Qed.

Lemma compose_seq sigma : compose sigma (seq 0 (length sigma)) = sigma.
Proof.
  unfold compose. apply nth_ext with (d := 0%nat) (d' := 0%nat); [rewrite map_length, seq_length; reflexivity|].
  intros k Hk. rewrite map_length, seq_length in Hk.
  rewrite (nth_indep _ 0%nat (nth 0%nat sigma 0%nat)) by (rewrite map_length, seq_length; exact Hk).
  rewrite (map_nth (fun i => nth i sigma 0%nat) (seq 0 (length sigma)) 0%nat k), seq_nth by exact Hk. reflexivity.
Qed.

Lemma compose_perm sigma ord' j : Permutation sigma (seq 0 j) -> Permutation ord' (seq 0 j) ->
  Permutation (compose sigma ord') (seq 0 j).
Proof.
  intros Hs Ho. assert (Hl : length sigma = j) by (rewrite (Permutation_length Hs), seq_length; reflexivity).
  apply perm_trans with sigma; [|exact Hs].
  rewrite <- (compose_seq sigma) at 2. rewrite Hl. unfold compose. apply Permutation_map. exact Ho.
Qed.

Lemma stepdown_length : forall k p_ord d_ord c plus1 prev vals,
  length p_ord = S k -> stepdown p_ord d_ord c plus1 prev k = Ok vals -> length vals = S k.
Proof.
  induction k as [|k IH]; intros p_ord d_ord c plus1 prev vals Hl H; cbn [stepdown] in H.
  - destruct p_ord as [|a [|b t]]; cbn in Hl; try lia. inversion H. reflexivity.
  - destruct (npc p_ord d_ord c plus1) as [nxt|]; cbn [bind] in H; [|discriminate].
    destruct (stepdown (tl p_ord) (map (@tl Q) d_ord) c plus1 (Qmax nxt prev) k) as [rest|] eqn:E; cbn [bind] in H; [|discriminate].
    inversion H. cbn [length]. f_equal.
    assert (Ht : length (tl p_ord) = S k) by (destruct p_ord; cbn in *; lia).
    apply (IH _ _ _ _ _ _ Ht E).
Qed.

Theorem fwer_relabel p distr sigma ord' c plus1 l' :
  let j := length p in
  Permutation sigma (seq 0 j) -> Permutation ord' (seq 0 j) ->
  forallb (fun r => Nat.eqb (length r) j) distr = true ->
  fwer_minp (take_cols sigma p) (map (take_cols sigma) distr) ord' c plus1 = Ok l' ->
  exists l, fwer_minp p distr (compose sigma ord') c plus1 = Ok l /\
            forall k, (k < j)%nat -> nth k l' 0 = nth (nth k sigma 0%nat) l 0.
Proof.
  intros j Hs Ho Hrows H.
  assert (Hls : length sigma = j) by (rewrite (Permutation_length Hs), seq_length; reflexivity).
  assert (Hlo : length ord' = j) by (rewrite (Permutation_length Ho), seq_length; reflexivity).
  assert (Hin : forall i, In i ord' -> (i < length sigma)%nat).
  { intros i Hi. apply (Permutation_in _ Ho) in Hi. apply in_seq in Hi. lia. }
  unfold fwer_minp in *. rewrite take_cols_length, Hls in H. fold j.
  destruct (j <? 2)%nat eqn:Ej; [discriminate|]. apply Nat.ltb_ge in Ej.
  rewrite Hrows. cbn [negb].
  destruct (negb (forallb _ (map (take_cols sigma) distr))); [discriminate|].
  rewrite (take_cols_compose sigma ord' p Hin) in H.
  assert (Ed : map (take_cols ord') (map (take_cols sigma) distr) = map (take_cols (compose sigma ord')) distr).
  { rewrite map_map. apply map_ext. intros r. apply take_cols_compose. exact Hin. }
  rewrite Ed in H.
  destruct (npc _ _ c plus1) as [first|]; cbn [bind] in *; [|discriminate].
  destruct (stepdown _ _ c plus1 first (j - 2)) as [rest|] eqn:E2; cbn [bind] in *; [|discriminate].
  inversion H; subst l'. clear H.
  eexists. split; [reflexivity|]. intros k Hk.
  assert (Hlen : length (first :: rest) = j).
  { assert (Ht : length (tl (take_cols (compose sigma ord') p)) = S (j - 2)).
    { unfold take_cols, compose. destruct ord' as [|a t]; cbn [length map tl] in *; [lia|]. rewrite !map_length. lia. }
    cbn [length]. rewrite (stepdown_length _ _ _ _ _ _ _ Ht E2). lia. }
  assert (Hko : In k ord') by (apply (Permutation_in _ (Permutation_sym Ho)); apply in_seq; lia).
  destruct (In_nth _ _ 0%nat Hko) as [i [Hi Ei]].
  assert (Pc := compose_perm sigma ord' j Hs Ho).
  assert (Nd' : NoDup ord') by (apply (Permutation_NoDup (Permutation_sym Ho)); apply seq_NoDup).
  assert (Ndc : NoDup (compose sigma ord')) by (apply (Permutation_NoDup (Permutation_sym Pc)); apply seq_NoDup).
  rewrite <- Ei.
  assert (Hr' : forall i0, In i0 ord' -> (i0 < length (repeat 0%Q j))%nat).
  { intros i0 Hi0. rewrite repeat_length. apply (Permutation_in _ Ho) in Hi0. apply in_seq in Hi0. lia. }
  assert (Hl' : length (first :: rest) = length ord') by congruence.
  rewrite (scatter_nth ord' (first :: rest) (repeat 0 j) i Nd' Hr' Hl' Hi).
  assert (Ec : nth (nth i ord' 0%nat) sigma 0%nat = nth i (compose sigma ord') 0%nat).
  { unfold compose. rewrite (nth_indep (map _ ord') 0%nat (nth 0%nat sigma 0%nat)) by (rewrite map_length; exact Hi).
    symmetry. apply (map_nth (fun i => nth i sigma 0%nat) ord' 0%nat i). }
  rewrite Ec.
  assert (Hrc : forall i0, In i0 (compose sigma ord') -> (i0 < length (repeat 0%Q j))%nat).
  { intros i0 Hi0. rewrite repeat_length. apply (Permutation_in _ Pc) in Hi0. apply in_seq in Hi0. lia. }
  assert (Hlc : length (first :: rest) = length (compose sigma ord')) by (unfold compose; rewrite map_length; congruence).
  assert (Hic : (i < length (compose sigma ord'))%nat) by (unfold compose; rewrite map_length; exact Hi).
  rewrite (scatter_nth (compose sigma ord') (first :: rest) (repeat 0 j) i Ndc Hrc Hlc Hic). reflexivity.
Qed.

(* the composed order sorts the original p-values whenever ord' sorts the relabelled ones *)
Lemma nth_compose sigma ord' k : (k < length ord')%nat -> nth k (compose sigma ord') 0%nat = nth (nth k ord' 0%nat) sigma 0%nat.
Proof.
  intros Hk. unfold compose. rewrite (nth_indep (map _ ord') 0%nat (nth 0%nat sigma 0%nat)) by (rewrite map_length; exact Hk).
  apply (map_nth (fun i => nth i sigma 0%nat) ord' 0%nat k).
Qed.
