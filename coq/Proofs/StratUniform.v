(* C02 / C04: permute_within_groups draws every within-stratum rearrangement with the same probability.
   The answers it consumes range over a product space (one block of Fisher-Yates answers per stratum, in the
   order of the sorted labels); the map from that space to the outputs is total, injective and onto the set of
   position permutations that keep every unit in its stratum.  Uniform independent answers therefore give the
   uniform law on that set = the product of the per-stratum uniform laws. *)
From Coq Require Import ZArith.
From PV Require Import Lib.Base Model.Prng Model.Core Model.Stratified.
From mathcomp Require Import all_ssreflect zify.
From PV Require Import Lib.Shuffle Lib.ShuffleTape Proofs.StratProofs Proofs.ExperimentProofs Proofs.ExperimentStrataProofs.
Local Open Scope nat_scope.
Set Implicit Arguments. Unset Strict Implicit. Unset Printing Implicit Defensive.

Definition pos_of (g : seq Z) (k : Z) : seq nat := positions (mask_of g k).

(* the answer space: one element of [draws n_k] per stratum, concatenated *)
Fixpoint prod_draws (ns : seq nat) : seq (seq nat) :=
  if ns is n :: ns' then [seq d ++ r | d <- draws n, r <- prod_draws ns'] else [:: [::]].
Definition sizes (g : seq Z) (ks : seq Z) : seq nat := [seq size (pos_of g k) | k <- ks].

Lemma size_prod_draws ns : size (prod_draws ns) = \prod_(n <- ns) n`!.
Proof.
elim: ns => [|n ns IH] /=; first by rewrite big_nil.
by rewrite size_allpairs size_draws IH big_cons.
Qed.

Lemma size_gather (T : Type) (d : T) x pos : size (gather d x pos) = size pos.
Proof. by rewrite /gather size_map. Qed.

Lemma permute_prod (x : seq nat) d r : d \in draws (size x) ->
  permute x (d ++ r) = Ok (shuf (@fy_pick nat) x d, r).
Proof. by move=> din; rewrite /permute (draws_from_ok _ din). Qed.

Lemma fy_perm (l : seq nat) d : d \in draws (size l) -> perm_eq (shuf (@fy_pick nat) l d) l.
Proof. by move=> din; apply: (shuf_perm (@fy_pick_perm _) (erefl _) din). Qed.
Lemma fy_inj (l : seq nat) d1 d2 : uniq l -> d1 \in draws (size l) -> d2 \in draws (size l) ->
  shuf (@fy_pick nat) l d1 = shuf (@fy_pick nat) l d2 -> d1 = d2.
Proof. by move=> Ul i1 i2; apply: (shuf_inj (@fy_pick_fst _) (@fy_pick_perm _) Ul (erefl _) i1 i2). Qed.

Section G.
Variable g : seq Z.

Lemma pwg_step k ks (x : seq nat) d r : d \in draws (size (pos_of g k)) ->
  pwg_loop 0 x g (k :: ks) (d ++ r) =
  pwg_loop 0 (scatter 0 x (pos_of g k) (shuf (@fy_pick nat) (gather 0 x (pos_of g k)) d)) g ks r.
Proof. by move=> din /=; rewrite permute_prod ?size_gather. Qed.

(* every point of the answer space is consumed exactly *)
Theorem pwg_total : forall ks (x : seq nat) t, t \in prod_draws (sizes g ks) ->
  exists y, pwg_loop 0 x g ks t = Ok (y, [::]).
Proof.
elim=> [|k ks IH] x t /=; first by rewrite inE => /eqP ->; exists x.
case/allpairsP => [[d r] /= [din rin ->]].
by rewrite -/(pwg_loop 0 x g (k :: ks) (d ++ r)) pwg_step //; exact: IH.
Qed.

(* labels not processed any more leave their stratum untouched *)
Lemma pwg_untouched k : forall ks (x : seq nat) t y t', k \notin ks ->
  pwg_loop 0 x g ks t = Ok (y, t') -> gather 0 y (pos_of g k) = gather 0 x (pos_of g k).
Proof.
elim=> [|k' ks IH] x t y t' /=; first by move=> _ [<- _].
rewrite inE negb_or => /andP [ne nin].
case E: (permute _ t) => [[v t1]|] //= H.
rewrite (IH _ _ _ _ nin H).
apply: gather_scatter_disjoint; apply: positions_disjoint; by move/eqP: ne => ne e; apply: ne.
Qed.

Lemma uniq_gather (x : seq nat) pos : uniq x -> uniq pos -> all (fun i => i < size x) pos -> uniq (gather 0 x pos).
Proof.
move=> Ux Up al; rewrite /gather map_inj_in_uniq // => i j ip jp /eqP.
by rewrite nth_uniq //; [move/eqP | move/allP: al; apply | move/allP: al; apply].
Qed.

Lemma pos_ok k (x : seq nat) : size x = size g ->
  uniq (pos_of g k) /\ all (fun i => i < size x) (pos_of g k).
Proof.
move=> sz; have [Up al] := StratProofs.positions_ok (mask_of g k); split=> //.
by apply: sub_all al => i; rewrite /mask_of size_map sz.
Qed.

Lemma step_uniq k (x : seq nat) d : uniq x -> size x = size g -> d \in draws (size (pos_of g k)) ->
  let x1 := scatter 0 x (pos_of g k) (shuf (@fy_pick nat) (gather 0 x (pos_of g k)) d) in
  [/\ uniq x1, size x1 = size g & perm_eq x1 x].
Proof.
move=> Ux sz din x1; have [Up al] := pos_ok k sz.
have pv : perm_eq (shuf (@fy_pick nat) (gather 0 x (pos_of g k)) d) (gather 0 x (pos_of g k)).
  by apply: fy_perm; rewrite size_gather.
have szv : size (shuf (@fy_pick nat) (gather 0 x (pos_of g k)) d) = size (pos_of g k).
  by rewrite (perm_size pv) size_gather.
have px : perm_eq x1 x by apply: StratProofs.scatter_perm.
by split=> //; [rewrite (perm_uniq px) | rewrite StratProofs.size_scatter].
Qed.

(* different answers give different outputs *)
Theorem pwg_inj : forall ks (x : seq nat) t t' y, uniq ks -> uniq x -> size x = size g ->
  t \in prod_draws (sizes g ks) -> t' \in prod_draws (sizes g ks) ->
  pwg_loop 0 x g ks t = Ok (y, [::]) -> pwg_loop 0 x g ks t' = Ok (y, [::]) -> t = t'.
Proof.
elim=> [|k ks IH] x t t' y /=; first by move=> _ _ _; rewrite !inE => /eqP -> /eqP ->.
case/andP => knin Uks Ux sz.
case/allpairsP => [[d r] /= [din rin ->]]; case/allpairsP => [[d' r'] /= [din' rin' ->]].
rewrite -!/(pwg_loop 0 x g (k :: ks) _) !pwg_step // => H H'.
have [Up al] := pos_ok k sz.
set gx := gather 0 x (pos_of g k) in H H'.
have [U1 s1 p1] := step_uniq Ux sz din; have [U1' s1' p1'] := step_uniq Ux sz din'.
have szv d0 : d0 \in draws (size (pos_of g k)) -> size (shuf (@fy_pick nat) gx d0) = size (pos_of g k).
  move=> d0in; have /perm_size -> : perm_eq (shuf (@fy_pick nat) gx d0) gx by apply: fy_perm; rewrite size_gather.
  by rewrite size_gather.
have ev : shuf (@fy_pick nat) gx d = shuf (@fy_pick nat) gx d'.
  have := pwg_untouched knin H; have := pwg_untouched knin H'.
  by rewrite !gather_scatter_same ?szv // => <- <-.
have ed : d = d'.
  by apply: (@fy_inj gx) => //; rewrite ?size_gather //; exact: uniq_gather.
subst d'; congr (_ ++ _); exact: (IH _ _ _ _ Uks U1 s1 rin rin' H H').
Qed.

(* every arrangement that keeps the strata is produced *)
Theorem pwg_surj : forall ks (x y : seq nat), uniq ks -> uniq x -> size x = size g -> size y = size x ->
  (forall k, k \in ks -> perm_eq (gather 0 y (pos_of g k)) (gather 0 x (pos_of g k))) ->
  (forall i, i < size x -> (forall k, k \in ks -> i \notin pos_of g k) -> nth 0 y i = nth 0 x i) ->
  exists2 t, t \in prod_draws (sizes g ks) & pwg_loop 0 x g ks t = Ok (y, [::]).
Proof.
elim=> [|k ks IH] x y /=.
  move=> _ _ sz szy _ same; exists [::] => //; congr (Ok (_, _)).
  by apply: (@eq_from_nth _ 0) => // i ilt; rewrite same // -szy.
case/andP => knin Uks Ux sz szy strat same.
have [Up al] := pos_ok k sz.
set gx := gather 0 x (pos_of g k).
have Ugx : uniq gx by apply: uniq_gather.
have pv : perm_eq (gather 0 y (pos_of g k)) gx by apply: strat; rewrite inE eqxx.
have : gather 0 y (pos_of g k) \in [seq shuf (@fy_pick nat) gx d | d <- draws (size gx)].
  by rewrite (perm_mem (fy_uniform Ugx)) mem_permutations.
case/mapP => d din ev; rewrite size_gather in din.
have [U1 s1 p1] := step_uniq Ux sz din.
set x1 := scatter 0 x (pos_of g k) (shuf (@fy_pick nat) gx d) in U1 s1 p1.
have szv : size (shuf (@fy_pick nat) gx d) = size (pos_of g k) by rewrite -ev size_gather.
have [] := IH x1 y Uks U1 s1.
- by rewrite szy sz s1.
- move=> k' k'in; have ne : k <> k' by move=> e; move: knin; rewrite e k'in.
  rewrite /x1 (@gather_scatter_disjoint _ 0 x _ _ _ (@positions_disjoint g k k' ne)).
  by apply: strat; rewrite inE k'in orbT.
- move=> i; rewrite s1 -sz => ilt out.
  case ip: (i \in pos_of g k).
    have [kk kklt ek] : exists2 kk, kk < size (pos_of g k) & nth 0 (pos_of g k) kk = i.
      by exists (index i (pos_of g k)); rewrite ?index_mem // nth_index.
    rewrite -ek /x1 StratProofs.nth_scatter_in // -ev /gather (nth_map 0) //.
  rewrite /x1 StratProofs.nth_scatter_out ?ip //; apply: same => // k'; rewrite inE => /orP [/eqP ->|]; [by rewrite ip | exact: out].
move=> r rin H; exists (d ++ r); first by apply: allpairs_f.
by rewrite -/(pwg_loop 0 x g (k :: ks) (d ++ r)) pwg_step.
Qed.
End G.

(* ---- np.unique: sorted, duplicate free, same members ---- *)
Definition zlt : rel Z := fun a b => (a <? b)%Z.
Lemma zlt_trans : transitive zlt.
Proof. by move=> b a c /Z.ltb_spec0 ab /Z.ltb_spec0 bc; apply/Z.ltb_spec0; lia. Qed.
Lemma zlt_irr : irreflexive zlt.
Proof. by move=> a; apply/Z.ltb_spec0; lia. Qed.

Lemma path_insert k : forall t a, zlt a k -> path zlt a t -> path zlt a (insert_nodup k t).
Proof.
elim=> [|b t IH] a ak /=; first by rewrite ak.
case/andP => ab pt.
case: (Z.ltb_spec0 k b) => kb /=; first by rewrite ak pt andbT; apply/Z.ltb_spec0.
case: (Z.eqb_spec k b) => e /=; first by rewrite ab pt.
rewrite ab /=; apply: IH => //; apply/Z.ltb_spec0; lia.
Qed.
Lemma sorted_insert k l : sorted zlt l -> sorted zlt (insert_nodup k l).
Proof.
case: l => [|b t] //= pt.
case: (Z.ltb_spec0 k b) => kb /=; first by rewrite pt andbT; apply/Z.ltb_spec0.
case: (Z.eqb_spec k b) => e //=.
apply: path_insert => //; apply/Z.ltb_spec0; lia.
Qed.
Lemma mem_insert k l x : (x \in insert_nodup k l) = (x == k) || (x \in l).
Proof.
elim: l => [|b t IH] /=; first by rewrite !inE orbF.
case: (Z.ltb_spec0 k b) => kb /=; first by rewrite !inE.
case: (Z.eqb_spec k b) => e /=.
  by rewrite e !inE; case: (x == b).
by rewrite !inE IH; case: (x == k); case: (x == b).
Qed.
Lemma unique_sorted g : sorted zlt (unique g).
Proof. by elim: g => [|a g IH] //=; apply: sorted_insert. Qed.
Lemma unique_uniq g : uniq (unique g).
Proof. exact: (sorted_uniq zlt_trans zlt_irr (unique_sorted g)). Qed.
Lemma mem_unique g x : (x \in unique g) = (x \in g).
Proof. by elim: g => [|a g IH] //=; rewrite mem_insert inE IH. Qed.

(* ---- the theorem for permute_within_groups on the positions 0..n-1 ---- *)
Section Final.
Variable g : seq Z.
Let n := size g.
Let space := prod_draws (sizes g (unique g)).

Lemma gather_iota pos : all (fun i => i < n) pos -> gather 0 (iota 0 n) pos = pos.
Proof.
move=> al; rewrite /gather -[RHS]map_id; apply/eq_in_map => i ip.
by rewrite nth_iota //; move/allP: al; apply.
Qed.

(* admissible outputs: position permutations sigma with g[sigma i] = g[i] *)
Definition admissible (sg : seq nat) : Prop := perm_eq sg (iota 0 n) /\ stratum_ok g sg.

Theorem pwg_uniform :
  [/\ size space = \prod_(k <- unique g) (size (pos_of g k))`!,
      (* total, and every output is admissible *)
      forall t, t \in space -> exists2 sg, permute_within_groups 0 (iota 0 n) g t = Ok (sg, [::]) & admissible sg,
      (* injective *)
      forall t t' sg, t \in space -> t' \in space ->
        permute_within_groups 0 (iota 0 n) g t = Ok (sg, [::]) ->
        permute_within_groups 0 (iota 0 n) g t' = Ok (sg, [::]) -> t = t' &
      (* onto the admissible arrangements *)
      forall sg, admissible sg -> exists2 t, t \in space & permute_within_groups 0 (iota 0 n) g t = Ok (sg, [::])].
Proof.
have szi : size (iota 0 n) = size g by rewrite size_iota.
split.
- by rewrite /space size_prod_draws /sizes big_map.
- move=> t tin; have [sg H] := pwg_total (iota 0 n) tin; exists sg => //.
  by have [_ p s] := pwg_index H.
- move=> t t' sg tin tin'; apply: pwg_inj => //; [exact: unique_uniq | exact: iota_uniq].
- move=> sg [psg sok].
  have Usg : uniq sg by rewrite (perm_uniq psg) iota_uniq.
  have szsg : size sg = n by rewrite (perm_size psg) size_iota.
  have H1 : forall k, k \in unique g -> perm_eq (gather 0 sg (pos_of g k)) (gather 0 (iota 0 n) (pos_of g k)).
    move=> k _.
    have [Up al] := pos_ok k szi; rewrite size_iota in al.
    rewrite gather_iota //.
    have alsg : all (fun i => i < size sg) (pos_of g k) by rewrite szsg.
    have Ug : uniq (gather 0 sg (pos_of g k)) by apply: uniq_gather.
    have sub : {subset gather 0 sg (pos_of g k) <= pos_of g k}.
      move=> j /mapP [i ip ->]; move: (ip); rewrite /pos_of !mem_positions /mask_of size_map => /andP [ig].
      rewrite (nth_map 0%Z) // => gk.
      have isg : i < size sg by rewrite szsg.
      have jn : nth 0 sg i < n.
        have : nth 0 sg i \in iota 0 n by rewrite -(perm_mem psg) mem_nth.
        by rewrite mem_iota add0n.
      by rewrite jn /= (nth_map 0%Z) // sok.
    have [_ eqm] := uniq_min_size Ug sub (eq_leq (esym (size_gather 0 sg (pos_of g k)))).
    exact: uniq_perm.
  have H2 : forall i, i < size (iota 0 n) -> (forall k, k \in unique g -> i \notin pos_of g k) -> nth 0 sg i = nth 0 (iota 0 n) i.
    move=> i; rewrite size_iota => ilt out; exfalso.
    have kin : nth 0%Z g i \in unique g by rewrite mem_unique mem_nth.
    move: (out _ kin); rewrite /pos_of mem_positions /mask_of size_map ilt /= (nth_map 0%Z) //.
    by rewrite Z.eqb_refl.
  have szy : size sg = size (iota 0 n) by rewrite szsg size_iota.
  exact: (pwg_surj (unique_uniq g) (iota_uniq 0 n) szi szy H1 H2).
Qed.
End Final.
