(* C16: with a constant shift d, two_sample_shift reports the statistic of the data as given and the p-value
   (and the rearrangements, and the generator state) of two_sample(x, y + d) on the same tape -- for every
   statistic that moves by -d when d is added to its second sample (the mean difference in particular). *)
From PV Require Import Lib.Base Model.Prng Model.Core Proofs.QLemmas Proofs.CoreProofs Lib.ShuffleTape.
From Coq Require Import Lqa Lia.
Open Scope Q_scope.

Section Shift.
Variable d : Q.
Variables x y : list Q.
Let nx := length x.
Let n := (length x + length y)%nat.
Let A := x ++ map (fun v => v + d) y.          (* treatment column of both tables *)
Let B := map (fun v => v - d) x ++ y.          (* control column of the shift table *)
Definition pot_shift := combine A B.
Definition pot_plain := combine A A.           (* the table two_sample builds for (x, y + d) *)

Lemma lenA : length A = n. Proof. unfold A, n. rewrite app_length, map_length. reflexivity. Qed.
Lemma lenB : length B = n. Proof. unfold B, n. rewrite app_length, map_length. reflexivity. Qed.

Lemma nth_AB i : (i < n)%nat -> nth i A 0 == nth i B 0 + d.
Proof.
  intros Hi. unfold A, B. destruct (Nat.lt_ge_cases i (length x)) as [H|H].
  - rewrite !app_nth1 by (rewrite ?map_length; exact H).
    rewrite (nth_indep (map _ x) 0 ((fun v => v - d) 0)) by (rewrite map_length; exact H).
    rewrite (map_nth (fun v => v - d) x 0 i). ring.
  - rewrite !app_nth2 by (rewrite ?map_length; exact H). rewrite map_length.
    assert (H2 : (i - length x < length y)%nat) by (unfold n in Hi; lia).
    rewrite (nth_indep (map _ y) 0 ((fun v => v + d) 0)) by (rewrite map_length; exact H2).
    rewrite (map_nth (fun v => v + d) y 0 (i - length x)). reflexivity.
Qed.

Lemma nth_pot_shift i : (i < n)%nat -> nth i pot_shift (0, 0) = (nth i A 0, nth i B 0).
Proof. intros Hi. unfold pot_shift. apply combine_nth. rewrite lenA, lenB. reflexivity. Qed.
Lemma nth_pot_plain i : (i < n)%nat -> nth i pot_plain (0, 0) = (nth i A 0, nth i A 0).
Proof. intros Hi. unfold pot_plain. apply combine_nth. reflexivity. Qed.

(* the two tables read through the same index list: equal treatment columns, control columns d apart *)
Lemma rows_related (rr : list nat) : (forall i, In i rr -> (i < n)%nat) ->
  map fst (take_rows (0, 0) pot_shift rr) = map fst (take_rows (0, 0) pot_plain rr) /\
  Forall2 (fun a b => b == a + d) (map snd (take_rows (0, 0) pot_shift rr)) (map snd (take_rows (0, 0) pot_plain rr)).
Proof.
  induction rr as [|i rr IH]; intros H; cbn [take_rows map]; [split; [reflexivity|constructor]|].
  destruct IH as [I1 I2]; [intros j Hj; apply H; right; exact Hj|].
  assert (Hi : (i < n)%nat) by (apply H; left; reflexivity).
  rewrite (nth_pot_shift i Hi), (nth_pot_plain i Hi). cbn [fst snd]. split.
  - f_equal. exact I1.
  - constructor; [apply nth_AB; exact Hi|exact I2].
Qed.

Lemma map_firstn {X Y} (f : X -> Y) k (l : list X) : map f (firstn k l) = firstn k (map f l).
Proof. revert k; induction l as [|a l IH]; intros [|k]; cbn; try reflexivity. f_equal. apply IH. Qed.
Lemma map_skipn {X Y} (f : X -> Y) k (l : list X) : map f (skipn k l) = skipn k (map f l).
Proof. revert k; induction l as [|a l IH]; intros [|k]; cbn; try reflexivity. apply IH. Qed.
Lemma Forall2_skipn {X} (R : X -> X -> Prop) k : forall l l', Forall2 R l l' -> Forall2 R (skipn k l) (skipn k l').
Proof. induction k as [|k IH]; intros l l' H; [exact H|]. destruct H; cbn; [constructor|apply IH; assumption]. Qed.

(* statistics that move by -d when d is added to the second sample *)
Variable s : stat2.
Hypothesis s_equivariant : forall u w w', w <> [] -> Forall2 (fun a b => b == a + d) w w' ->
  eval2 s u w' == eval2 s u w - d.
Hypothesis ny_pos : (0 < length y)%nat.

Lemma value_related (rr : list nat) : length rr = n -> (forall i, In i rr -> (i < n)%nat) ->
  eval2 s (map fst (firstn nx (take_rows (0, 0) pot_plain rr))) (map snd (skipn nx (take_rows (0, 0) pot_plain rr)))
  == eval2 s (map fst (firstn nx (take_rows (0, 0) pot_shift rr))) (map snd (skipn nx (take_rows (0, 0) pot_shift rr))) - d.
Proof.
  intros Hl H. destruct (rows_related rr H) as [E1 E2].
  rewrite !map_firstn, !map_skipn, <- E1.
  apply s_equivariant; [|apply Forall2_skipn; exact E2].
  intros E. apply (f_equal (@length Q)) in E. rewrite skipn_length, map_length in E.
  unfold take_rows in E. rewrite map_length, Hl in E. unfold n, nx in E. cbn in E. lia.
Qed.

Lemma core_loop_related : forall reps rr t vs ars t',
  length rr = n -> (forall i, In i rr -> (i < n)%nat) ->
  core_loop s pot_shift nx rr reps t = Ok (vs, ars, t') ->
  exists vs', core_loop s pot_plain nx rr reps t = Ok (vs', ars, t') /\ Forall2 (fun v v' => v' == v - d) vs vs'.
Proof.
  induction reps as [|reps IH]; intros rr t vs ars t' Hl Hr H; cbn [core_loop] in *.
  - inversion H; subst. exists []. split; [reflexivity|constructor].
  - destruct (pyshuffle rr t) as [[rr1 t1]|] eqn:Ep; cbn [bind fst snd] in *; [|discriminate].
    destruct (pyshuffle_inv Ep) as [L1 M1].
    assert (Hl1 : length rr1 = n) by congruence.
    assert (Hr1 : forall i, In i rr1 -> (i < n)%nat) by (intros i Hi; apply Hr, M1, Hi).
    destruct (core_loop s pot_shift nx rr1 reps t1) as [[[v1 a1] t2]|] eqn:Ec; cbn [bind fst snd] in *; [|discriminate].
    destruct (IH rr1 t1 v1 a1 t2 Hl1 Hr1 Ec) as [v1' [Ec' F]].
    rewrite Ec'. cbn [bind fst snd]. inversion H; subst.
    eexists. split; [reflexivity|]. constructor; [apply value_related; assumption|exact F].
Qed.

Lemma counts_related tst tst' vs vs' : tst' == tst - d -> Forall2 (fun v v' => v' == v - d) vs vs' ->
  count_ge tst' vs' = count_ge tst vs /\ count_le tst' vs' = count_le tst vs.
Proof.
  intros Et F. unfold count_ge, count_le. induction F as [|v v' vs vs' Ev F IH]; [split; reflexivity|].
  destruct IH as [I1 I2]. cbn [filter].
  assert (X1 : Qle_bool tst' v' = Qle_bool tst v).
  { destruct (Qle_bool tst' v') eqn:H1; destruct (Qle_bool tst v) eqn:H2; try reflexivity.
    - apply Qle_bool_iff in H1. assert (Qle_bool tst v = true) by (apply Qle_bool_iff; lra). congruence.
    - apply Qle_bool_iff in H2. assert (Qle_bool tst' v' = true) by (apply Qle_bool_iff; lra). congruence. }
  assert (X2 : Qle_bool v' tst' = Qle_bool v tst).
  { destruct (Qle_bool v' tst') eqn:H1; destruct (Qle_bool v tst) eqn:H2; try reflexivity.
    - apply Qle_bool_iff in H1. assert (Qle_bool v tst = true) by (apply Qle_bool_iff; lra). congruence.
    - apply Qle_bool_iff in H2. assert (Qle_bool v' tst' = true) by (apply Qle_bool_iff; lra). congruence. }
  rewrite X1, X2. split; [destruct (Qle_bool tst v)|destruct (Qle_bool v tst)]; cbn [length]; congruence.
Qed.

Lemma seq_facts : length (seq 0 n) = n /\ forall i, In i (seq 0 n) -> (i < n)%nat.
Proof. split; [apply seq_length|]. intros i Hi. apply in_seq in Hi. lia. Qed.

Lemma observed_shift : map fst (firstn nx pot_shift) = x /\ map snd (skipn nx pot_shift) = y.
Proof.
  unfold pot_shift, A, B, nx. clear. revert y. induction x as [|a l IH]; intros y0; cbn [length app map combine firstn skipn].
  - split; [reflexivity|]. induction y0 as [|b y1 IHy]; [reflexivity|]. cbn [map combine snd]. f_equal. exact IHy.
  - destruct (IH y0) as [I1 I2]. split; [cbn [fst]; f_equal; exact I1|exact I2].
Qed.

Theorem shift_is_two_sample_of_shifted a reps plus1 t r :
  two_sample_shift x y s a reps plus1 (Scalar d) t = Ok r ->
  tstat r = eval2 s x y /\
  exists r', two_sample x (map (fun v => v + d) y) s a reps plus1 t = Ok r' /\
             pval r' = pval r /\ arrs r' = arrs r /\ rest r' = rest r /\
             tstat r' == tstat r - d /\ Forall2 (fun v v' => v' == v - d) (dist r) (dist r').
Proof.
  unfold two_sample_shift, two_sample, two_sample_core.
  change (combine (x ++ map (fun v => v + d) y) (map (fun v => v - d) x ++ y)) with pot_shift.
  change (combine (x ++ map (fun v => v + d) y) (x ++ map (fun v => v + d) y)) with pot_plain.
  fold nx. intros H.
  assert (Lp : length pot_shift = n) by (unfold pot_shift; rewrite combine_length, lenA, lenB; apply Nat.min_id).
  assert (Lp' : length pot_plain = n) by (unfold pot_plain; rewrite combine_length, lenA; apply Nat.min_id).
  rewrite Lp in H. rewrite Lp'.
  destruct seq_facts as [S1 S2].
  destruct (core_loop s pot_shift nx (seq 0 n) reps t) as [[[vs ars] t']|] eqn:Ec; cbn [bind fst snd] in H; [|discriminate].
  destruct (core_loop_related reps (seq 0 n) t vs ars t' S1 S2 Ec) as [vs' [Ec' F]].
  rewrite Ec'. cbn [bind fst snd]. inversion H; subst r; cbn [tstat pval arrs rest dist]. clear H.
  destruct observed_shift as [O1 O2]. rewrite O1, O2. split; [reflexivity|].
  eexists. split; [reflexivity|]. cbn [tstat pval arrs rest dist].
  assert (Et : eval2 s (map fst (firstn nx pot_plain)) (map snd (skipn nx pot_plain)) == eval2 s x y - d).
  { assert (T1 : take_rows (0, 0) pot_plain (seq 0 n) = pot_plain).
    { unfold take_rows. rewrite <- Lp'. apply nth_ext with (d := (0, 0)) (d' := (0, 0)); [rewrite map_length, seq_length; reflexivity|].
      intros i Hi. rewrite map_length, seq_length in Hi.
      rewrite (nth_indep _ (0, 0) (nth 0%nat pot_plain (0, 0))) by (rewrite map_length, seq_length; exact Hi).
      rewrite (map_nth (fun j => nth j pot_plain (0, 0)) (seq 0 (length pot_plain)) 0%nat i), seq_nth by exact Hi. reflexivity. }
    assert (T2 : take_rows (0, 0) pot_shift (seq 0 n) = pot_shift).
    { unfold take_rows. rewrite <- Lp. apply nth_ext with (d := (0, 0)) (d' := (0, 0)); [rewrite map_length, seq_length; reflexivity|].
      intros i Hi. rewrite map_length, seq_length in Hi.
      rewrite (nth_indep _ (0, 0) (nth 0%nat pot_shift (0, 0))) by (rewrite map_length, seq_length; exact Hi).
      rewrite (map_nth (fun j => nth j pot_shift (0, 0)) (seq 0 (length pot_shift)) 0%nat i), seq_nth by exact Hi. reflexivity. }
    assert (V := value_related (seq 0 n) S1 S2). rewrite T1, T2, O1, O2 in V. exact V. }
  destruct (counts_related _ _ vs vs' Et F) as [C1 C2].
  rewrite C1, C2. repeat split; try reflexivity; assumption.
Qed.
End Shift.

(* the mean difference is such a statistic *)
Lemma qsum_shift d : forall w w', Forall2 (fun a b => b == a + d) w w' -> qsum w' == qsum w + qn (length w) * d.
Proof.
  induction 1 as [|a b w w' E F IH]; cbn [qsum fold_right length]; [unfold qn; cbn; ring|].
  fold (qsum w) (qsum w'). rewrite IH, E. rewrite (qn_S (length w)). ring.
Qed.
Lemma meandiff_equivariant d u w w' : w <> [] -> Forall2 (fun a b => b == a + d) w w' ->
  eval2 MeanDiff u w' == eval2 MeanDiff u w - d.
Proof.
  intros Hw F. cbn [eval2].
  assert (El : length w' = length w) by (clear Hw; induction F; cbn; congruence).
  assert (Hn : ~ qn (length w) == 0).
  { destruct w as [|a w0]; [congruence|]. cbn [length]. rewrite (qn_S (length w0)). assert (H0 := qn_nonneg (length w0)). lra. }
  assert (Em : qmean w' == qmean w + d).
  { unfold qmean. rewrite (qsum_shift d w w' F), El. field. exact Hn. }
  rewrite Em. ring.
Qed.

Theorem meandiff_shift_is_two_sample_of_shifted d x y a reps plus1 t r : (0 < length y)%nat ->
  two_sample_shift x y MeanDiff a reps plus1 (Scalar d) t = Ok r ->
  tstat r = eval2 MeanDiff x y /\
  exists r', two_sample x (map (fun v => v + d) y) MeanDiff a reps plus1 t = Ok r' /\
             pval r' = pval r /\ arrs r' = arrs r /\ rest r' = rest r /\
             tstat r' == tstat r - d /\ Forall2 (fun v v' => v' == v - d) (dist r) (dist r').
Proof.
  intros Hy H. apply (shift_is_two_sample_of_shifted d x y MeanDiff (meandiff_equivariant d) Hy a reps plus1 t r H).
Qed.
