(* The hit count H of the Monte-Carlo tests is Binomial(reps, pstar) over the answer space, with
   pstar = (number of rearrangements at least as extreme) / (number of rearrangements):
   instances of Lib/Counting.hits_binomial_chain for the repetition loops of Model/Core.v. *)
From PV Require Import Lib.Base Model.Prng Model.Core.
From mathcomp Require Import all_ssreflect.
From PV Require Import Lib.Shuffle Lib.ShuffleTape Lib.Counting.
Local Open Scope nat_scope.
Set Implicit Arguments. Unset Strict Implicit. Unset Printing Implicit Defensive.

(* ---------------- tests that re-permute the ORIGINAL vector in every repetition
   (corr, spearman_corr, k_sample; permute = Fisher-Yates) ---------------- *)
Section Fresh.
Variable T : eqType.
Variable x : seq T.
Hypothesis Ux : uniq x.
Variable extreme : seq T -> bool.        (* "statistic of this rearrangement at least as extreme as observed" *)

Let n := size x.
Let dom := draws n.
Let a := count extreme (permutations x).

Lemma fresh_hits : count (fun d => extreme (shuf (@fy_pick T) x d)) dom = a.
Proof.
rewrite /a /dom /n -count_map; apply/permP; exact: fy_uniform.
Qed.

(* the model's loop on the concatenated answers returns exactly the rearrangements selected by them *)
Lemma perm_loop_flatten r : forall ds, ds \in tuples dom r ->
  perm_loop x r (flatten ds) = Ok ([seq shuf (@fy_pick T) x d | d <- ds], [::]).
Proof.
elim: r => [|r IH] ds.
  by rewrite inE => /eqP ->.
rewrite tuplesS => /allpairsP [[d ds'] [din dsin ->]] /=.
by rewrite /permute (draws_from_ok _ din) /= (IH _ dsin).
Qed.

(* number of answer sequences (out of (n!)^reps, all equally likely) on which exactly h of the reps
   rearrangements are at least as extreme as observed *)
Theorem fresh_hits_binomial r h :
  count (fun ds => count extreme (if perm_loop x r (flatten ds) is Ok at' then at'.1 else [::]) == h)
        (tuples dom r)
  = 'C(r, h) * a ^ h * (n`! - a) ^ (r - h).
Proof.
have okall : all (fun _ : seq nat => true) dom by apply/allP.
have := @hits_binomial_chain unit (seq nat) (fun _ _ => tt) (fun _ d => extreme (shuf (@fy_pick T) x d))
          dom (fun _ => True) (fun _ => true) okall (fun _ _ _ _ => I) a (fun _ _ => fresh_hits) r tt h I.
rewrite /N size_draws => <-.
apply: eq_in_count => ds dsin; rewrite (perm_loop_flatten dsin) /= count_map.
congr (_ == _); elim: ds {dsin} => //= d ds ->. by [].
Qed.
End Fresh.

(* ---------------- two_sample_core: random.shuffle of the index list left by the previous repetition ---------------- *)
Section Chained.
Variable n : nat.
Hypothesis npos : 0 < n.
Variable extreme : seq nat -> bool.      (* on the shuffled index list rr (rows taken in that order) *)

(* answers of one shuffle: n-1 draws with bounds n..2; dom1 lists them (the forced last pick is dropped) *)
Definition dom1 : seq (seq nat) := [seq take n.-1 d | d <- draws n].
Definition pstep (rr : seq nat) (d : seq nat) : seq nat := rev (shuf (@last_pick nat) rr (rcons d 0)).
Let a := count extreme (permutations (iota 0 n)).

Lemma draws_last0 d : d \in draws n -> d = rcons (take n.-1 d) 0.
Proof.
move=> din; have sz := draws_size din.
move: din; rewrite mem_draws sz eqxx /= => /allP al.
have lt : nth 0 d n.-1 < n - n.-1 by apply: al; rewrite mem_iota add0n /= prednK.
have e1 : n - n.-1 = 1 by rewrite -subn1 subKn.
have z : nth 0 d n.-1 = 0 by move: lt; rewrite e1; case: (nth 0 d n.-1).
have lt1 : n.-1 < size d by rewrite sz prednK.
have dn : drop n d = [::] by rewrite -sz drop_size.
by rewrite -{1}(cat_take_drop n.-1 d) (drop_nth 0 lt1) z prednK // dn cats1.
Qed.

Lemma pstep_perm rr d : perm_eq rr (iota 0 n) -> d \in dom1 -> perm_eq (pstep rr d) (iota 0 n).
Proof.
move=> prr /mapP [d0 d0in ->]; rewrite /pstep -(draws_last0 d0in) perm_rev.
apply: (perm_trans _ prr); apply: (shuf_perm (@last_pick_perm _) _ d0in).
by rewrite (perm_size prr) size_iota.
Qed.

Lemma perm_map_rev (l : seq nat) : uniq l -> perm_eq [seq rev s | s <- permutations l] (permutations l).
Proof.
move=> Ul; apply: uniq_perm.
- rewrite map_inj_uniq ?permutations_uniq //; exact: (can_inj revK).
- exact: permutations_uniq.
- move=> s; apply/mapP/idP => [[s0 s0in ->]|sin].
    by move: s0in; rewrite !mem_permutations perm_rev.
  by exists (rev s); rewrite ?revK // mem_permutations perm_rev -mem_permutations.
Qed.

Lemma chained_hits rr : perm_eq rr (iota 0 n) -> count (fun d => extreme (pstep rr d)) dom1 = a.
Proof.
move=> prr; rewrite /dom1 count_map /a.
have Urr : uniq rr by rewrite (perm_uniq prr) iota_uniq.
have szr : size rr = n by rewrite (perm_size prr) size_iota.
rewrite (@eq_in_count _ _ (fun d => extreme (rev (shuf (@last_pick nat) rr d)))); last first.
  by move=> d din /=; rewrite /pstep -(draws_last0 din).
rewrite -[count _ (draws n)]/(count (preim (fun d => rev (shuf (@last_pick nat) rr d)) extreme) (draws n)).
rewrite -count_map (map_comp rev).
have P1 := perm_map rev (last_uniform Urr); rewrite szr in P1.
have P2 := perm_trans P1 (perm_map_rev Urr).
have P3 := perm_trans P2 (perm_permutations prr).
by move/permP: P3; apply.
Qed.

Fixpoint states (rr : seq nat) (ds : seq (seq nat)) : seq (seq nat) :=
  if ds is d :: ds' then pstep rr d :: states (pstep rr d) ds' else [::].

Theorem chained_hits_binomial r h rr : perm_eq rr (iota 0 n) ->
  count (fun ds => count extreme (states rr ds) == h) (tuples dom1 r)
  = 'C(r, h) * a ^ h * (n`! - a) ^ (r - h).
Proof.
move=> prr.
have szd : size dom1 = n`! by rewrite /dom1 size_map size_draws.
have okall : all (fun d => d \in dom1) dom1 by apply/allP.
have istep : forall s d, d \in dom1 -> perm_eq s (iota 0 n) -> perm_eq (pstep s d) (iota 0 n).
  by move=> s d din ps; exact: pstep_perm.
have := @hits_binomial_chain (seq nat) (seq nat) pstep (fun s d => extreme (pstep s d)) dom1
          (fun s => perm_eq s (iota 0 n)) (fun d => d \in dom1) okall istep a chained_hits r rr h prr.
rewrite szd /N => <-.
apply: eq_count => ds; congr (_ == _).
by elim: ds rr {prr} => //= d ds IH rr; rewrite IH.
Qed.
End Chained.

(* ---------------- link to the model's loops ---------------- *)
Section Link.
Variable n : nat.
Hypothesis npos : 0 < n.

Lemma pyshuffle_dom1 (rr : seq nat) d rest : size rr = n -> d \in dom1 n ->
  pyshuffle rr (d ++ rest) = Ok (pstep rr d, rest).
Proof.
move=> szr /mapP [d0 d0in ->]; rewrite /pyshuffle szr.
have sz0 := draws_size d0in.
have szt : size (take n.-1 d0) = n.-1 by rewrite size_take sz0; case: (n) npos => // m _ /=; rewrite ltnSn.
rewrite draws_from_prefix //= => i ilt.
rewrite nth_take //; move: d0in; rewrite mem_draws sz0 eqxx /= => /allP; apply.
by rewrite mem_iota add0n /=; apply: leq_trans ilt (leq_pred _).
Qed.

(* on the concatenated answers of r repetitions the index lists evaluated by two_sample_core are the
   chain of shuffles [states] of Section Chained, and the whole tape is consumed *)
Lemma core_loop_states s pot nx r : forall (rr : seq nat) ds, size rr = n -> perm_eq rr (iota 0 n) ->
  ds \in tuples (dom1 n) r ->
  exists dv, core_loop s pot nx rr r (flatten ds) = Ok (dv, states rr ds, [::]).
Proof.
elim: r => [|r IH] rr ds szr prr.
  by rewrite inE => /eqP ->; exists [::].
rewrite tuplesS => /allpairsP [[d ds'] [din dsin ->]] /=.
rewrite (pyshuffle_dom1 _ szr din) /=.
have p1 := pstep_perm npos prr din.
have sz1 : size (pstep rr d) = n by rewrite (perm_size p1) size_iota.
have [dv ->] := IH _ _ sz1 p1 dsin.
by eexists.
Qed.
End Link.

(* ---------------- one_sample: n fair sign bits per repetition ---------------- *)
Section OneSample.
Variable n : nat.
Variable extreme : seq nat -> bool.      (* on the vector of sign bits of one repetition *)

(* all 0/1 vectors of length n: the answer space of one repetition, 2^n equally likely points *)
Definition bitvecs : seq (seq nat) := tuples [:: 0; 1] n.
Let a := count extreme bitvecs.

Lemma size_bitvecs : size bitvecs = 2 ^ n.
Proof. by rewrite /bitvecs size_tuples. Qed.

Theorem one_sample_hits_binomial r h :
  count (fun ds => count extreme ds == h) (tuples bitvecs r) = 'C(r, h) * a ^ h * (2 ^ n - a) ^ (r - h).
Proof.
have okall : all (fun _ : seq nat => true) bitvecs by apply/allP.
have := @hits_binomial_chain unit (seq nat) (fun _ _ => tt) (fun _ d => extreme d)
          bitvecs (fun _ => True) (fun _ => true) okall (fun _ _ _ _ => I) a (fun _ _ => erefl) r tt h I.
rewrite /N size_bitvecs => <-.
apply: eq_count => ds; congr (_ == _); by elim: ds => //= d ds ->.
Qed.

(* the model draws exactly those bits: on the concatenated answers, [bits] returns them and consumes them *)
Lemma bits_prefix : forall m d t, d \in tuples [:: 0; 1] m -> bits m (d ++ t) = Ok (d, t).
Proof.
elim=> [|m IH] d t; first by rewrite inE => /eqP ->.
rewrite tuplesS; case/allpairsP => [[b d'] /= [bin din ->]] /=.
have blt : b < 2 by move: bin; rewrite !inE => /orP [/eqP ->|/eqP ->].
by rewrite blt /= (IH _ _ din).
Qed.

Lemma one_loop_bits s (z : seq Q) r : size z = n -> forall ds, ds \in tuples bitvecs r ->
  exists dv, one_loop s z r (flatten ds) = Ok (dv, ds, [::]) /\ size dv = r.
Proof.
move=> sz; elim: r => [|r IH] ds.
  by rewrite inE => /eqP ->; exists [::].
rewrite tuplesS; case/allpairsP => [[d ds'] /= [din dsin ->]] /=.
have -> : length z = n by exact: sz.
rewrite (bits_prefix _ din) /=.
have [dv [-> szd]] := IH _ dsin.
by eexists; split=> //=; rewrite szd.
Qed.
End OneSample.
