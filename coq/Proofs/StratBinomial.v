(* C02 / C01: the Monte-Carlo hit count of the STRATIFIED tests is Binomial(reps, pstar), with
   pstar = (number of admissible within-stratum rearrangements at least as extreme as observed) /
           (number of admissible rearrangements = prod_k n_k!).
   Every repetition of pwg_reps starts from the ORIGINAL vector, consumes one point of the product answer
   space of Proofs/StratUniform.v, and the repetitions use disjoint parts of the tape. *)
From Coq Require Import ZArith.
From PV Require Import Lib.Base Model.Prng Model.Core Model.Stratified.
From mathcomp Require Import all_ssreflect zify.
From PV Require Import Lib.Shuffle Lib.ShuffleTape Lib.Counting Proofs.StratProofs Proofs.ExperimentProofs
                       Proofs.ExperimentStrataProofs Proofs.StratUniform.
Local Open Scope nat_scope.
Set Implicit Arguments. Unset Strict Implicit. Unset Printing Implicit Defensive.

Lemma prod_draws_uniq ns : uniq (prod_draws ns).
Proof.
elim: ns => [|n ns IH] //=.
apply: allpairs_uniq => //; first exact: draws_uniq.
move=> [d r] [d' r'] /allpairsP [[a b] /= [ain bin [-> ->]]] /allpairsP [[a' b'] /= [ain' bin' [-> ->]]] /= e.
have sz : size a = size a' by rewrite (draws_size ain) (draws_size ain').
have := congr1 (take (size a)) e; rewrite take_size_cat // sz take_size_cat // => ea.
by move: e; rewrite ea => /(congr1 (drop (size a'))); rewrite !drop_size_cat // => ->.
Qed.

Section G.
Variable g : seq Z.

(* a point of the answer space followed by further answers: the rest is left on the tape *)
Lemma pwg_rest : forall ks (x : seq nat) t y rest, t \in prod_draws (sizes g ks) ->
  pwg_loop 0 x g ks t = Ok (y, [::]) -> pwg_loop 0 x g ks (t ++ rest) = Ok (y, rest).
Proof.
elim=> [|k ks IH] x t y rest /=; first by rewrite inE => /eqP -> [->].
case/allpairsP => [[d r] /= [din rin ->]].
rewrite -/(pwg_loop 0 x g (k :: ks) (d ++ r)) pwg_step // => H.
by rewrite -catA -/(pwg_loop 0 x g (k :: ks) (d ++ (r ++ rest))) pwg_step //; apply: IH.
Qed.
End G.

Section Law.
Variable g : seq Z.
Variable extreme : seq nat -> bool.     (* "statistic of this arrangement of the positions at least as extreme as observed" *)
Let n := size g.
Let space := prod_draws (sizes g (unique g)).

Definition pwg_out (t : seq nat) : seq nat :=
  if permute_within_groups 0 (iota 0 n) g t is Ok yt then yt.1 else [::].
Let a := count (fun t => extreme (pwg_out t)) space.

Lemma pwg_out_ok t rest : t \in space ->
  permute_within_groups 0 (iota 0 n) g (t ++ rest) = Ok (pwg_out t, rest).
Proof.
move=> tin; have [y H] := pwg_total (iota 0 n) tin.
by rewrite /pwg_out /permute_within_groups H /= (pwg_rest rest tin H).
Qed.

(* the model's repetition loop on the concatenated answers returns exactly the arrangements selected by them *)
Lemma pwg_reps_flatten r : forall ds, ds \in tuples space r ->
  pwg_reps 0 (iota 0 n) g r (flatten ds) = Ok ([seq pwg_out t | t <- ds], [::]).
Proof.
elim: r => [|r IH] ds.
  by rewrite inE => /eqP ->.
rewrite tuplesS => /allpairsP [[d ds'] [din dsin ->]] /=.
by rewrite (pwg_out_ok _ din) /= (IH _ dsin).
Qed.

(* number of answer sequences (out of (prod_k n_k!)^reps, all equally likely) on which exactly h of the reps
   within-stratum rearrangements are at least as extreme as observed *)
Theorem strat_hits_binomial r h :
  count (fun ds => count extreme (if pwg_reps 0 (iota 0 n) g r (flatten ds) is Ok rt then rt.1 else [::]) == h)
        (tuples space r)
  = 'C(r, h) * a ^ h * (size space - a) ^ (r - h).
Proof.
have okall : all (fun _ : seq nat => true) space by apply/allP.
have := @hits_binomial_chain unit (seq nat) (fun _ _ => tt) (fun _ t => extreme (pwg_out t))
          space (fun _ => True) (fun _ => true) okall (fun _ _ _ _ => I) a (fun _ _ => erefl _) r tt h I.
move=> <-; rewrite /N.
apply: eq_in_count => ds dsin; rewrite (pwg_reps_flatten dsin) /= count_map.
congr (_ == _); elim: ds {dsin} => //= d ds ->. by [].
Qed.

(* pstar: the answers that give an extreme arrangement are as many as the extreme admissible arrangements,
   whatever duplicate-free enumeration L of the admissible arrangements is used *)
Theorem strat_pstar (L : seq (seq nat)) : uniq L -> (forall sg, sg \in L <-> admissible g sg) ->
  a = count extreme L /\ size space = size L.
Proof.
move=> UL LP.
have [_ tot inj surj] := pwg_uniform g.
have outE t : t \in space -> permute_within_groups 0 (iota 0 n) g t = Ok (pwg_out t, [::]).
  by move=> tin; have := pwg_out_ok [::] tin; rewrite cats0.
have P : perm_eq [seq pwg_out t | t <- space] L.
  apply: uniq_perm => //.
  - rewrite map_inj_in_uniq; first exact: prod_draws_uniq.
    move=> t t' tin tin' e; apply: (inj t t' (pwg_out t)) => //; first exact: outE.
    by rewrite e; exact: outE.
  - move=> sg; apply/mapP/idP.
    + case=> t tin ->; apply/LP; have [sg' H adm] := tot _ tin.
      by move: H adm; rewrite (outE _ tin) => [[<-]].
    + move/LP => adm; have [t tin H] := surj _ adm; exists t => //.
      by move: H; rewrite (outE _ tin) => [[<-]].
split; last by rewrite -(perm_size P) size_map.
by rewrite /a -count_map; apply/permP.
Qed.
End Law.

(* ---- the same law for the data the tests permute (any element type), and for the hit count they compute ---- *)
Lemma pwg_reps_positions (T : Type) (x0 : T) (x : seq T) (g : seq Z) : size x = size g -> forall r t,
  pwg_reps x0 x g r t =
  match pwg_reps 0 (iota 0 (size g)) g r t with
  | Ok rt => Ok ([seq [seq nth x0 x i | i <- sg] | sg <- rt.1], rt.2)
  | Err e => Err e
  end.
Proof.
move=> sz; elim=> [|r IH] t //=.
rewrite (pwg_acts_on_positions x0 t sz).
case: (permute_within_groups 0 (iota 0 (size g)) g t) => [[sg t1]|e] //=.
by rewrite IH; case: (pwg_reps 0 (iota 0 (size g)) g r t1) => [[rows t2]|e] //=.
Qed.

Lemma count_ge_map (T : Type) (f : T -> Q) tst (rows : seq T) :
  count_ge tst [seq f r | r <- rows] = count (fun r => Qle_bool tst (f r)) rows.
Proof. by rewrite /count_ge; elim: rows => //= r rows <-; case: (Qle_bool tst (f r)). Qed.

Section DataLaw.
Variable T : Type.
Variables (x0 : T) (x : seq T) (g : seq Z).
Hypothesis sz : size x = size g.
Variable stat : seq T -> Q.      (* the test statistic as a function of the rearranged data *)
Variable tst : Q.                (* the observed value *)
Let space := prod_draws (sizes g (unique g)).
Let ext (sg : seq nat) := Qle_bool tst (stat [seq nth x0 x i | i <- sg]).

(* the number #{dist >= observed} that stratified_permutationtest / stratified_two_sample / bivariate_k_sample
   turn into the p-value is Binomial(reps, pstar) over the answer space *)
Theorem strat_count_ge_binomial r h :
  count (fun ds => (if pwg_reps x0 x g r (flatten ds) is Ok rt then count_ge tst [seq stat row | row <- rt.1] else 0) == h)
        (tuples space r)
  = 'C(r, h) * (count (fun t => ext (pwg_out g t)) space) ^ h
    * (size space - count (fun t => ext (pwg_out g t)) space) ^ (r - h).
Proof.
rewrite -(strat_hits_binomial g ext r h).
apply: eq_in_count => ds dsin.
rewrite (pwg_reps_positions x0 sz) (pwg_reps_flatten dsin) /= count_ge_map count_map.
by [].
Qed.
End DataLaw.

(* the tests themselves on the answer space: each returns the p-value of exactly the count above *)
Lemma pwg_reps_on_space (T : Type) (x0 : T) (x : seq T) (g : seq Z) r ds : size x = size g ->
  ds \in tuples (prod_draws (sizes g (unique g))) r ->
  pwg_reps x0 x g r (flatten ds) = Ok ([seq [seq nth x0 x i | i <- pwg_out g t] | t <- ds], [::]).
Proof. by move=> sz dsin; rewrite (pwg_reps_positions x0 sz) (pwg_reps_flatten dsin) /= -map_comp. Qed.

Theorem bivariate_on_space (x : seq Q) (g1 g2 : seq Z) r plus1 ds : size g2 = size g1 ->
  ds \in tuples (prod_draws (sizes g1 (unique g1))) r ->
  let rows := [seq [seq nth 0%Z g2 i | i <- pwg_out g1 t] | t <- ds] in
  let tst := two_way_anova x g2 (qmean x) in
  let d := [seq two_way_anova x gp (qmean x) | gp <- rows] in
  bivariate_k_sample x g1 g2 r plus1 (flatten ds) =
  Ok (perm_pvalue (cc plus1) (count_ge tst d) (length d), tst, d, rows, [::]).
Proof. by move=> sz dsin; rewrite /bivariate_k_sample (pwg_reps_on_space 0%Z sz dsin). Qed.

Theorem s2s_on_space (g c : seq Z) (resp : seq Q) ord s a r plus1 ds :
  let resp' := List.map (fun i => List.nth i resp 0%Q) ord in
  let g' := List.map (fun i => List.nth i g 0%Z) ord in
  size resp' = size g' ->
  ds \in tuples (prod_draws (sizes g' (unique g'))) r ->
  let rows := [seq [seq nth 0%Q resp' i | i <- pwg_out g' t] | t <- ds] in
  let tst := evalv s resp' in
  s2s_callable g c resp ord s a r plus1 (flatten ds) =
  Ok (strat_pvalue a (count_ge tst [seq evalv s row | row <- rows]) r plus1, tst, [seq evalv s row | row <- rows], rows, [::]).
Proof. by move=> resp' g' sz dsin; rewrite /s2s_callable (pwg_reps_on_space 0%Q sz dsin). Qed.

Theorem spt_on_space (g c : seq Z) s a r plus1 ds : size c = size g -> (2 <= length (unique c))%coq_nat ->
  ds \in tuples (prod_draws (sizes g (unique g))) r ->
  let rows := [seq [seq nth 0%Z c i | i <- pwg_out g t] | t <- ds] in
  let tst := evalv s (List.map inject_Z c) in
  let d := [seq evalv s (List.map inject_Z cp) | cp <- rows] in
  spt_callable g c s a r plus1 (flatten ds) = Ok (Some (strat_pvalue a (count_ge tst d) r plus1, tst, d, rows), [::]).
Proof.
move=> sz two dsin; rewrite /spt_callable.
have -> : (length (unique c) <? 2)%coq_nat = false by apply/Nat.ltb_ge.
by rewrite (pwg_reps_on_space 0%Z sz dsin).
Qed.
