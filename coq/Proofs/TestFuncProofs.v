(* C17, the built-in test functions of the model: an array of tests evaluates each test on the same assignment
   (make_test_array(func, indices)[i](data) = func(data, indices[i])); mean_diff is the difference of the two group
   means (antisymmetric in the groups); the signed square of the pooled t has the sign of the mean difference and
   vanishes with it. *)
From PV Require Import Lib.Base Model.Prng Model.Core Model.Experiment.
From Coq Require Import Lia Lqa.
Open Scope Q_scope.

Lemma eval_tests_pointwise : forall fs g resp vs, eval_tests fs g resp = Ok vs ->
  length vs = length fs /\ forall i d, (i < length fs)%nat -> eval_test (nth i fs d) g resp = Ok (nth i vs 0).
Proof.
  induction fs as [|f fs IH]; intros g resp vs H; cbn [eval_tests] in H.
  - inversion H; subst. split; [reflexivity|]. intros i d Hi. inversion Hi.
  - destruct (eval_test f g resp) as [v|] eqn:E; cbn [bind] in H; [|discriminate].
    destruct (eval_tests fs g resp) as [vs'|] eqn:E'; cbn [bind] in H; [|discriminate].
    inversion H; subst. destruct (IH _ _ _ E') as [L P]. split; [cbn; congruence|].
    intros [|i] d Hi; cbn [nth]; [exact E|]. apply P. cbn in Hi. lia.
Qed.

Lemma eval_tests_fails_iff_some_test_fails : forall fs g resp e, eval_tests fs g resp = Err e ->
  exists i d, (i < length fs)%nat /\ eval_test (nth i fs d) g resp = Err e.
Proof.
  induction fs as [|f fs IH]; intros g resp e H; cbn [eval_tests] in H; [discriminate|].
  destruct (eval_test f g resp) as [v|e1] eqn:E; cbn [bind] in H.
  - destruct (eval_tests fs g resp) as [vs'|e2] eqn:E'; cbn [bind] in H; [discriminate|].
    inversion H; subst. destruct (IH _ _ _ E') as (i & d & Hi & Hv). exists (S i), d. split; [cbn; lia|exact Hv].
  - inversion H; subst. exists 0%nat, f. split; [cbn; lia|exact E].
Qed.

(* mean_diff with exactly two labels is the difference of the means of the first and the second group *)
Lemma mean_diff_value i g resp g0 g1 : unique g = [g0; g1] ->
  eval_test (MeanDiffF i) g resp = Ok (qmean (select (column resp i) g g0) - qmean (select (column resp i) g g1)).
Proof. intros U. unfold eval_test. rewrite U. reflexivity. Qed.

Lemma two_sample_tests_need_two_groups i g resp : length (unique g) <> 2%nat ->
  eval_test (MeanDiffF i) g resp = Err ValueError /\ eval_test (TtestSqF i) g resp = Err ValueError.
Proof.
  intros H. unfold eval_test. destruct (unique g) as [|a [|b [|c l]]]; cbn in H; try (split; reflexivity). lia.
Qed.

(* the signed square of t has the sign of the difference in means *)
Lemma ttest_sign a b v : ttest_signed_square a b = Ok v ->
  let d := qmean a - qmean b in
  let den := (ssq a + ssq b) / (qn (length a) + qn (length b) - 2) * (1 / qn (length a) + 1 / qn (length b)) in
  ~ den == 0 /\ v == d * Qabs d / den.
Proof.
  unfold ttest_signed_square. intros H.
  destruct (Qeq_bool _ 0) eqn:E; [discriminate|]. inversion H; subst. split; [|reflexivity].
  intros Z. apply Qeq_bool_neq in E. apply E. exact Z.
Qed.
