(* Small facts about Q used by several models (stdlib style). *)
From PV Require Import Lib.Base Model.Pvalues.
From Coq Require Import Lqa.
Open Scope Q_scope.

Lemma Qmin_spec a b : (a <= b /\ Qmin a b = a) \/ (b < a /\ Qmin a b = b).
Proof.
  unfold Qmin. destruct (Qle_bool a b) eqn:E.
  - left. split; [apply Qle_bool_iff; exact E|reflexivity].
  - right. split; [|reflexivity]. apply Qnot_le_lt. intros H. apply Qle_bool_iff in H. congruence.
Qed.
Lemma Qmax_spec a b : (a <= b /\ Qmax a b = b) \/ (b < a /\ Qmax a b = a).
Proof.
  unfold Qmax. destruct (Qle_bool a b) eqn:E.
  - left. split; [apply Qle_bool_iff; exact E|reflexivity].
  - right. split; [|reflexivity]. apply Qnot_le_lt. intros H. apply Qle_bool_iff in H. congruence.
Qed.

(* 2*min(pl, pu, 1/2) = min(1, 2*min(pl, pu)) *)
Lemma two_sided_def pl pu : two_sided pl pu == Qmin 1 ((2 # 1) * Qmin pl pu).
Proof.
  unfold two_sided.
  destruct (Qmin_spec pl pu) as [[H1 ->]|[H1 ->]];
  [destruct (Qmin_spec pl (1#2)) as [[H2 ->]|[H2 ->]]; destruct (Qmin_spec 1 ((2#1)*pl)) as [[H3 ->]|[H3 ->]]
  |destruct (Qmin_spec pu (1#2)) as [[H2 ->]|[H2 ->]]; destruct (Qmin_spec 1 ((2#1)*pu)) as [[H3 ->]|[H3 ->]]];
  lra.
Qed.
