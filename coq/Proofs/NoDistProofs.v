(* C05: keep_dist changes neither the p-value nor the statistic (nor the draws): the keep_dist=False code
   paths (Model/NoDist.v) return what the keep_dist=True paths (Model/Core.v) return, for every input and tape. *)
From PV Require Import Lib.Base Model.Prng Model.Core Model.NoDist.
From Coq Require Import Lia.
Open Scope Q_scope.

Lemma count_cons_ge tst v d : count_ge tst (v :: d) = (b2n (Qle_bool tst v) + count_ge tst d)%nat.
Proof. unfold count_ge. cbn [filter]. destruct (Qle_bool tst v); reflexivity. Qed.
Lemma count_cons_le tst v d : count_le tst (v :: d) = (b2n (Qle_bool v tst) + count_le tst d)%nat.
Proof. unfold count_le. cbn [filter]. destruct (Qle_bool v tst); reflexivity. Qed.

Lemma core_hits_eq s pot nx tst : forall reps rr t,
  core_hits s pot nx rr reps t tst =
  match core_loop s pot nx rr reps t with
  | Ok r => Ok (count_ge tst (fst (fst r)), count_le tst (fst (fst r)), snd r)
  | Err e => Err e
  end.
Proof.
  induction reps as [|reps IH]; intros rr t; cbn [core_hits core_loop]; [reflexivity|].
  destruct (pyshuffle rr t) as [[rr1 t1]|e]; cbn [bind fst snd]; [|reflexivity].
  rewrite IH. destruct (core_loop s pot nx rr1 reps t1) as [[[d ar] t2]|e]; cbn [bind fst snd]; [|reflexivity].
  rewrite count_cons_ge, count_cons_le. reflexivity.
Qed.

Theorem two_sample_core_nodist_eq s pot nx a reps plus1 t :
  two_sample_core_nodist s pot nx a reps plus1 t =
  match two_sample_core s pot nx a reps plus1 t with
  | Ok r => Ok (pval r, tstat r, rest r)
  | Err e => Err e
  end.
Proof.
  unfold two_sample_core_nodist, two_sample_core. rewrite core_hits_eq.
  destruct (core_loop _ _ _ _ _ _) as [[[d ar] t2]|e]; cbn [bind fst snd pval tstat rest]; reflexivity.
Qed.

Lemma one_hits_eq s z tst : forall reps t,
  one_hits s z reps t tst =
  match one_loop s z reps t with
  | Ok r => Ok (count_ge tst (fst (fst r)), count_le tst (fst (fst r)), snd r)
  | Err e => Err e
  end.
Proof.
  induction reps as [|reps IH]; intros t; cbn [one_hits one_loop]; [reflexivity|].
  destruct (bits (length z) t) as [[b t1]|e]; cbn [bind fst snd]; [|reflexivity].
  rewrite IH. destruct (one_loop s z reps t1) as [[[d ar] t2]|e]; cbn [bind fst snd]; [|reflexivity].
  rewrite count_cons_ge, count_cons_le. reflexivity.
Qed.

Theorem one_sample_nodist_eq x y s a reps plus1 t :
  one_sample_nodist x y s a reps plus1 t =
  match one_sample x y s a reps plus1 t with
  | Ok r => Ok (pval r, tstat r, rest r)
  | Err e => Err e
  end.
Proof.
  unfold one_sample_nodist, one_sample.
  destruct (match y with None => Ok x | Some yy => _ end) as [z|e]; cbn [bind]; [|reflexivity].
  rewrite one_hits_eq.
  destruct (one_loop s z reps t) as [[[d ar] t2]|e]; cbn [bind fst snd pval tstat rest]; reflexivity.
Qed.
