(* Invariants of Experiment histories (C17): over any sequence of randomize / sim_npc / westfall_young
   operations the responses, strata and randomizer kind never change, the group vector is always a
   rearrangement of the original labels, in_place=False leaves the assignment untouched. *)
From Coq Require Import ZArith.
From PV Require Import Lib.Base Model.Prng Model.Core Model.Stratified Model.Experiment.
From mathcomp Require Import all_ssreflect zify.
From PV Require Import Lib.Shuffle Lib.ShuffleTape.
Local Open Scope nat_scope.
Set Implicit Arguments. Unset Strict Implicit. Unset Printing Implicit Defensive.

Definition Z_eqMixin := EqMixin Z.eqb_spec.
Canonical Z_eqType := EqType Z Z_eqMixin.

(* random_sample(a, len(a)) returns a rearrangement, as multisets *)
Lemma sample_all_perm (x : seq Z) t y t' : sample_all x t = Ok (y, t') -> perm_eq y x.
Proof.
move=> /(sample_all_is_rearrangement 0%Z) [sg [psg -> _]].
have := perm_map (nth 0%Z x) psg; by rewrite map_nth_iota0 // take_size.
Qed.

(* writing a rearrangement of the gathered values back into the same positions conserves the multiset *)
Lemma count_set_nth (x : seq Z) i b a : i < size x ->
  count_mem a (set_nth 0%Z x i b) + (nth 0%Z x i == a) = count_mem a x + (b == a).
Proof.
elim: x i => // c x IH [|i] /= ilt.
  by move: (b == a) (c == a) (count_mem a x) => [] [] k /=; lia.
have := IH i ilt.
by move: (c == a) (nth 0%Z x i == a) (b == a) (count_mem a _) (count_mem a x) => [] [] [] k1 k2 /=; lia.
Qed.

Lemma scatter_count (pos : seq nat) : forall (v x : seq Z), uniq pos -> all (fun i => i < size x) pos ->
  size v = size pos -> forall a,
  count_mem a (scatter 0%Z x pos v) + count_mem a (gather 0%Z x pos) = count_mem a x + count_mem a v.
Proof.
elim: pos => [|i pos IH] v x.
  by move=> _ _ /size0nil -> a /=; rewrite !addn0.
case: v => // b v /= /andP [ni Up] /andP [ix al] [sz] a.
have al' : all (fun j => j < size (set_nth 0%Z x i b)) pos.
  by apply: sub_all al => j jx; rewrite size_set_nth; apply: leq_trans jx (leq_maxr _ _).
have := IH v (set_nth 0%Z x i b) Up al' sz a.
have gsame : gather 0%Z (set_nth 0%Z x i b) pos = gather 0%Z x pos.
  rewrite /gather; apply/eq_in_map => j jin; rewrite nth_set_nth /=; case: eqP => // e; by rewrite -e jin in ni.
rewrite gsame; have := count_set_nth b a ix.
move: (count_mem a (scatter _ _ _ _)) (count_mem a (gather _ _ _)) (count_mem a (set_nth _ _ _ _)) (count_mem a x) (count_mem a v) => c1 c2 c3 c4 c6.
move: (nth 0%Z x i == a) (b == a) => [] [] /=; lia.
Qed.

Lemma scatter_perm (pos : seq nat) (x v : seq Z) : uniq pos -> all (fun i => i < size x) pos ->
  size v = size pos -> perm_eq v (gather 0%Z x pos) -> perm_eq (scatter 0%Z x pos v) x.
Proof.
move=> Up al sz pv; apply/allP => a _ /=.
have := scatter_count Up al sz a; move/permP: pv => /(_ (pred1 a)) /= ->.
by move=> /eqP; rewrite eqn_add2r.
Qed.

Lemma positions_ok (m : seq bool) : uniq (positions m) /\ all (fun i => i < size m) (positions m).
Proof.
rewrite /positions; split; first by rewrite filter_uniq // iota_uniq.
by apply/allP => i; rewrite mem_filter mem_iota add0n => /andP [_ /andP [_ ]].
Qed.

Lemma size_scatter (x : seq Z) pos v : all (fun i => i < size x) pos -> size (scatter 0%Z x pos v) = size x.
Proof.
elim: pos x v => [|i pos IH] x [|b v] //= /andP [ix al].
have szs : size (set_nth 0%Z x i b) = size x by rewrite size_set_nth; apply/maxn_idPr.
by rewrite IH ?szs //; apply: sub_all al => j jx; rewrite szs.
Qed.

(* randomize_in_strata: every pass over a stratum conserves the labels (and the length) *)
Lemma strata_loop_perm (s : seq Z) : forall labels (g : seq Z) t g' t',
  size s = size g -> strata_loop g s labels t = Ok (g', t') -> perm_eq g' g /\ size g' = size g.
Proof.
elim=> [|k ks IH] g t g' t' sz /=; first by case=> <- _.
case E: (sample_all _ t) => [[v t1]|] //= H.
have [Up al] := positions_ok (mask_of s k).
have al' : all (fun i => i < size g) (positions (mask_of s k)).
  by apply: sub_all al => i; rewrite /mask_of size_map sz.
have pv := sample_all_perm E.
have szv : size v = size (positions (mask_of s k)).
  by rewrite (perm_size pv) /gather size_map.
have p1 := scatter_perm Up al' szv pv.
have sz1 : size s = size (scatter 0%Z g (positions (mask_of s k)) v) by rewrite size_scatter.
have [p2 sz2] := IH _ _ _ _ sz1 H.
split; first exact: perm_trans p2 p1.
by rewrite sz2 size_scatter.
Qed.

Definition wfs (s : option (seq Z)) (g : seq Z) : Prop :=
  match s with Some st => size st = size g | None => True end.

Lemma randomize_once_perm k (g : seq Z) s t g' t' :
  wfs s g ->
  randomize_once k g s t = Ok (g', t') -> perm_eq g' g /\ size g' = size g.
Proof.
case: k; case: s => [st|] wf //=.
- by move=> H; have p := sample_all_perm H; split=> //; rewrite (perm_size p).
- by move=> H; have p := sample_all_perm H; split=> //; rewrite (perm_size p).
- exact: strata_loop_perm.
Qed.

Lemma rand_chain_perm k s resp fs : forall reps (g : seq Z) t rows g' t',
  wfs s g ->
  rand_chain k g s resp fs reps t = Ok (rows, g', t') -> perm_eq g' g /\ size g' = size g.
Proof.
elim=> [|reps IH] g t rows g' t' wf /=; first by case=> _ <- _.
case E: (randomize_once k g s t) => [[g1 t1]|] //=.
case E2: (eval_tests fs g1 resp) => [row|] //=.
case E3: (rand_chain _ _ _ _ _ _ _) => [[[rs g2] t2]|] //= [_ <- _].
have [p1 s1] := randomize_once_perm wf E.
have wf1 : wfs s g1 by move: wf; rewrite /wfs; case: (s) => // st ->.
have [p2 s2] := IH _ _ _ _ _ wf1 E3.
by split; [exact: perm_trans p2 p1 | rewrite s2 s1].
Qed.

(* ---- the invariant of histories ---- *)
Definition Inv (e0 e : exp) : Prop :=
  [/\ response e = response e0, strata e = strata e0, kind e = kind e0,
      perm_eq (group e) (group e0) & size (group e) = size (group e0)].

Definition wf (e : exp) : Prop := wfs (strata e) (group e).

Lemma Inv_refl e : Inv e e. Proof. by split. Qed.

Lemma reseeded_fields e rs :
  [/\ group (reseeded e rs) = group e, response (reseeded e rs) = response e,
      strata (reseeded e rs) = strata e & kind (reseeded e rs) = kind e].
Proof. by case: rs. Qed.

Lemma bind_ok A B (r : result A) (f : A -> result B) v : bind r f = Ok v -> exists a, r = Ok a /\ f a = Ok v.
Proof. by case: r => [a|e] //= H; exists a. Qed.

Lemma step_fields e o e' out : wfs (strata e) (group e) -> step e o = Ok (e', out) ->
  [/\ response e' = response e, strata e' = strata e, kind e' = kind e,
      perm_eq (group e') (group e) & size (group e') = size (group e)].
Proof.
move=> w.
case: o => [ip rs fork|ip rs fork reps fs c|ip rs fork reps fs m alts]; rewrite /step;
  have [eg er es ek] := reseeded_fields e rs;
  have wr : wfs (strata (reseeded e rs)) (group (reseeded e rs)) by rewrite es eg.
- move=> H; have [[g1 t1] [E [<- _]]] := bind_ok H.
  have [p1 s1] := randomize_once_perm wr E; rewrite eg in p1 s1.
  by clear E H; case: ip; rewrite /= ?er ?es ?ek ?eg.
- move=> H; have [ts [E0 H1]] := bind_ok H; have [[[rows g1] t1] [E H2]] := bind_ok H1.
  have [pp [_ [<- _]]] := bind_ok H2.
  have [p1 s1] := rand_chain_perm wr E; rewrite eg in p1 s1.
  by clear E E0 H H1 H2; case: ip; rewrite /= ?er ?es ?ek ?eg.
- case: ifP => // _.
  move=> H; have [ts [E0 H1]] := bind_ok H; have [[[rows g1] t1] [E H2]] := bind_ok H1.
  have [pp [_ [<- _]]] := bind_ok H2.
  have [p1 s1] := rand_chain_perm wr E; rewrite eg in p1 s1.
  by clear E E0 H H1 H2; case: ip; rewrite /= ?er ?es ?ek ?eg.
Qed.

Lemma step_Inv e0 e o e' out : wf e0 -> Inv e0 e -> step e o = Ok (e', out) -> Inv e0 e'.
Proof.
move=> w [r s k p sz] H.
have we : wfs (strata e) (group e) by move: w; rewrite /wf /wfs s sz.
have [r1 s1 k1 p1 z1] := step_fields we H.
split; [by rewrite r1 | by rewrite s1 | by rewrite k1 | exact: perm_trans p1 p | by rewrite z1].
Qed.

Theorem run_Inv e0 : wf e0 -> forall ops e e' outs, Inv e0 e -> run e ops = Ok (e', outs) -> Inv e0 e'.
Proof.
move=> w; elim=> [|o ops IH] e e' outs I /=; first by case=> <- _.
case E: (step e o) => [[e1 out]|] //=.
case E2: (run e1 ops) => [[e2 os]|] //= [<- _].
exact: IH (step_Inv w I E) E2.
Qed.

(* in_place = False: the caller's Experiment is left as it was (up to the optional reseed) *)
Lemma step_not_in_place e o e' out : step e o = Ok (e', out) ->
  match o with
  | Randomize false rs _ | SimNpc false rs _ _ _ _ | WestfallYoung false rs _ _ _ _ _ => e' = reseeded e rs
  | _ => True
  end.
Proof.
case: o => [[] rs fork|[] rs fork reps fs c|[] rs fork reps fs m alts] //; rewrite /step.
- by move=> H; have [[g1 t1] [_ [<- _]]] := bind_ok H.
- move=> H; have [ts [_ H1]] := bind_ok H; have [[[rows g1] t1] [_ H2]] := bind_ok H1.
  by have [pp [_ [<- _]]] := bind_ok H2.
- case: ifP => // _ H; have [ts [_ H1]] := bind_ok H; have [[[rows g1] t1] [_ H2]] := bind_ok H1.
  by have [pp [_ [<- _]]] := bind_ok H2.
Qed.
