(* C06 / C17: the randomizers of the Experiment model consume a prefix of the generator's answers as well. *)
From PV Require Import Lib.Base Model.Prng Model.Core Model.Stratified Model.Experiment Proofs.Frame.

Lemma strata_loop_frame s : forall labels g t g' t' more,
  strata_loop g s labels t = Ok (g', t') -> strata_loop g s labels (t ++ more) = Ok (g', t' ++ more).
Proof.
  induction labels as [|k ks IH]; intros g t g' t' more H; cbn [strata_loop] in *.
  - inversion H; subst. reflexivity.
  - destruct (sample_all _ t) as [[v t1]|] eqn:E; cbn [bind fst snd] in H; [|discriminate].
    rewrite (frames_sample_all _ _ _ _ more E). cbn [bind fst snd]. apply IH. exact H.
Qed.

Theorem frames_randomize_once k g s : frames (randomize_once k g s).
Proof.
  intros t r t' more H. unfold randomize_once in *. destruct k.
  - apply (frames_sample_all g _ _ _ more H).
  - destruct s as [st|]; [|discriminate]. apply strata_loop_frame. exact H.
Qed.

Theorem rand_chain_frame k s resp fs : forall reps g t rows g' t' more,
  rand_chain k g s resp fs reps t = Ok (rows, g', t') -> rand_chain k g s resp fs reps (t ++ more) = Ok (rows, g', t' ++ more).
Proof.
  induction reps as [|reps IH]; intros g t rows g' t' more H; cbn [rand_chain] in *.
  - inversion H; subst. reflexivity.
  - destruct (randomize_once k g s t) as [[g1 t1]|] eqn:E; cbn [bind fst snd] in H; [|discriminate].
    rewrite (frames_randomize_once k g s _ _ _ more E). cbn [bind fst snd].
    destruct (eval_tests fs g1 resp) as [row|]; cbn [bind] in *; [|discriminate].
    destruct (rand_chain k g1 s resp fs reps t1) as [[[rws g2] t2]|] eqn:E2; cbn [bind fst snd] in H; [|discriminate].
    rewrite (IH _ _ _ _ _ more E2). cbn [bind fst snd]. inversion H; subst. reflexivity.
Qed.
