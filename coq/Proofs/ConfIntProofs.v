(* C12: monotonicity of the exact binomial tails of Model/ConfInt.v in p and soundness of the
   certificate checker; C13: the bisections return the extreme G satisfying a monotone predicate. *)
From Coq Require Import ZArith QArith Qabs Lia Lqa List.
From PV Require Import Lib.Base Model.TailsZ Model.ConfInt.
From mathcomp Require Import all_ssreflect zify.
From PV Require Import Lib.Tails Lib.Binom Lib.BinomMono Proofs.PvaluesProofs.
Local Open Scope nat_scope.
Set Implicit Arguments. Unset Strict Implicit. Unset Printing Implicit Defensive.

Lemma q_of_eq (num den : Z) : (0 < den)%Z -> (q_of num den == inject_Z num / inject_Z den)%Q.
Proof.
move=> dpos; rewrite /q_of Qred_correct /Qeq /Qdiv /Qmult /Qinv /inject_Z /=.
case: den dpos => // d _ /=. lia.
Qed.

(* a rational p in [0,1] as a/(a+b) with naturals *)
Definition pnum (p : Q) : nat := Z.to_nat (Qnum p).
Definition pden (p : Q) : nat := Pos.to_nat (Qden p).

Lemma p_parts p : (0 <= p)%Q -> (p <= 1)%Q ->
  Qnum p = Z.of_nat (pnum p) /\ (Zpos (Qden p) - Qnum p)%Z = Z.of_nat (pden p - pnum p) /\ pnum p <= pden p.
Proof.
rewrite /Qle /= /pnum /pden => h0 h1.
have n0 : (0 <= Qnum p)%Z by lia.
have n1 : (Qnum p <= Zpos (Qden p))%Z by lia.
split; first by rewrite Z2Nat.id.
have le : (Z.to_nat (Qnum p) <= Pos.to_nat (Qden p))%coq_nat by lia.
split; last by apply/leP.
rewrite Nat2Z.inj_sub // Z2Nat.id // positive_nat_Z. by [].
Qed.

Lemma pow_of_nat (u v : nat) : Z.of_nat (u ^ v) = (Z.of_nat u ^ Z.of_nat v)%Z.
Proof. elim: v => [|v IH] //; rewrite expnS Nat2Z.inj_mul IH Nat2Z.inj_succ Z.pow_succ_r //; lia. Qed.

(* the model's tail at p is the nat-level tail over D^n *)
Lemma binom_upper_q_nat n x p : (0 <= p)%Q -> (p <= 1)%Q ->
  (binom_upper_q n x p == inject_Z (Z.of_nat (Ub n x (pnum p) (pden p - pnum p))) / inject_Z (Z.of_nat (pden p ^ n)))%Q.
Proof.
move=> h0 h1; have [e1 [e2 le]] := p_parts h0 h1.
rewrite /binom_upper_q; cbv zeta; rewrite e2 e1 binom_upper_spec upper_wbinom -Nat2Z.inj_add -pow_of_nat plusE subnKC //.
apply: q_of_eq. have : 0 < pden p ^ n by rewrite expn_gt0 /pden; have := Pos2Nat.is_pos (Qden p); lia.
lia.
Qed.

Lemma binom_lower_q_nat n x p : (0 <= p)%Q -> (p <= 1)%Q ->
  (binom_lower_q n x p == inject_Z (Z.of_nat (lower (wbinom n (pnum p) (pden p - pnum p)) x)) / inject_Z (Z.of_nat (pden p ^ n)))%Q.
Proof.
move=> h0 h1; have [e1 [e2 le]] := p_parts h0 h1.
rewrite /binom_lower_q; cbv zeta; rewrite e2 e1 binom_lower_spec -Nat2Z.inj_add -pow_of_nat plusE subnKC //.
apply: q_of_eq. have : 0 < pden p ^ n by rewrite expn_gt0 /pden; have := Pos2Nat.is_pos (Qden p); lia.
lia.
Qed.

Lemma Qle_nat_div (u v s t : nat) : 0 < s -> 0 < t -> u * t <= v * s ->
  (inject_Z (Z.of_nat u) / inject_Z (Z.of_nat s) <= inject_Z (Z.of_nat v) / inject_Z (Z.of_nat t))%Q.
Proof.
move=> sp tp le.
have sq : (0 < inject_Z (Z.of_nat s))%Q by rewrite /Qlt /=; lia.
have tq : (0 < inject_Z (Z.of_nat t))%Q by rewrite /Qlt /=; lia.
apply: Qle_shift_div_l => //.
rewrite /Qdiv -Qmult_assoc (Qmult_comm (/ _)) Qmult_assoc.
apply: Qle_shift_div_r => //.
rewrite -!inject_Z_mult -Zle_Qle. lia.
Qed.

Lemma pq_cross p q : (p <= q)%Q -> (0 <= p)%Q -> (q <= 1)%Q -> pnum p * pden q <= pnum q * pden p.
Proof.
rewrite /Qle /pnum /pden /= => le h0 h1.
have : (Qnum p * Zpos (Qden q) <= Qnum q * Zpos (Qden p))%Z by [].
have n0 : (0 <= Qnum p)%Z by lia.
have m0 : (0 <= Qnum q)%Z by nia.
move=> H; apply/leP. 
have := Z2Nat.id _ n0; have := Z2Nat.id _ m0.
have := positive_nat_Z (Qden p); have := positive_nat_Z (Qden q). nia.
Qed.

(* L5 for the model: the upper tail is nondecreasing, the lower tail nonincreasing in p *)
Theorem binom_upper_q_mono n x p q : (0 <= p)%Q -> (p <= q)%Q -> (q <= 1)%Q ->
  (binom_upper_q n x p <= binom_upper_q n x q)%Q.
Proof.
move=> h0 pq h1.
have p1 : (p <= 1)%Q by lra. have q0 : (0 <= q)%Q by lra.
rewrite (binom_upper_q_nat n x h0 p1) (binom_upper_q_nat n x q0 h1).
have [_ [_ lep]] := p_parts h0 p1; have [_ [_ leq']] := p_parts q0 h1.
set a := pnum p; set D1 := pden p; set c := pnum q; set D2 := pden q.
have D1p : 0 < D1 by rewrite /D1 /pden; have := Pos2Nat.is_pos (Qden p); lia.
have D2p : 0 < D2 by rewrite /D2 /pden; have := Pos2Nat.is_pos (Qden q); lia.
apply: Qle_nat_div; rewrite ?expn_gt0 ?D1p ?D2p //.
have cross := pq_cross pq h0 h1; rewrite -/a -/D1 -/c -/D2 in cross lep leq'.
have := @Ub_mono_p n x (D2 * a) (D2 * (D1 - a)) (D1 * c) (D1 * (D2 - c)).
rewrite !Ub_scale => H.
have e : D2 * a + D2 * (D1 - a) = D1 * c + D1 * (D2 - c) by nia.
have l : D2 * a <= D1 * c by nia.
have := H e l. nia.
Qed.

Theorem binom_lower_q_anti n x p q : (0 <= p)%Q -> (p <= q)%Q -> (q <= 1)%Q ->
  (binom_lower_q n x q <= binom_lower_q n x p)%Q.
Proof.
move=> h0 pq h1.
have p1 : (p <= 1)%Q by lra. have q0 : (0 <= q)%Q by lra.
rewrite (binom_lower_q_nat n x h0 p1) (binom_lower_q_nat n x q0 h1).
have [_ [_ lep]] := p_parts h0 p1; have [_ [_ leq']] := p_parts q0 h1.
set a := pnum p; set D1 := pden p; set c := pnum q; set D2 := pden q.
have D1p : 0 < D1 by rewrite /D1 /pden; have := Pos2Nat.is_pos (Qden p); lia.
have D2p : 0 < D2 by rewrite /D2 /pden; have := Pos2Nat.is_pos (Qden q); lia.
apply: Qle_nat_div; rewrite ?expn_gt0 ?D1p ?D2p //.
have cross := pq_cross pq h0 h1; rewrite -/a -/D1 -/c -/D2 in cross lep leq'.
(* L(q) D1^n <= L(p) D2^n  via  L = D^n - U(x+1) and the scaling/monotonicity of U *)
have La := lower_wbinom n a (D1 - a) x; have Lc := lower_wbinom n c (D2 - c) x.
rewrite !subnKC // in La Lc.
have := @Ub_mono_p n x.+1 (D2 * a) (D2 * (D1 - a)) (D1 * c) (D1 * (D2 - c)).
rewrite !Ub_scale => H.
have e : D2 * a + D2 * (D1 - a) = D1 * c + D1 * (D2 - c) by nia.
have l : D2 * a <= D1 * c by nia.
have Hm := H e l.
have E : D1 ^ n * D2 ^ n = D2 ^ n * D1 ^ n by rewrite mulnC.
move: (lower (wbinom n a (D1 - a)) x) (lower (wbinom n c (D2 - c)) x) (Ub n x.+1 a (D1 - a)) (Ub n x.+1 c (D2 - c)) La Lc Hm => la lc ua uc La Lc Hm.
move: (D1 ^ n) (D2 ^ n) La Lc Hm => P1 P2 La Lc Hm. nia.
Qed.

(* ---- soundness of the certificate for a numerically solved Clopper-Pearson limit ---- *)
Lemma Qle_boolP (a b : Q) : Qle_bool a b = true -> (a <= b)%Q.
Proof. by move/Qle_bool_iff. Qed.

(* lower limit L: every p below the bracket has P_p(X >= x) <= a, every p above it has P_p(X >= x) >= a; L
   itself lies in the bracket, whose width is at most 3 delta.  Hence the exact limit (where the nondecreasing
   tail crosses a) is within 3 delta of L. *)
Theorem lower_cert_sound n x (a L p1 p2 delta : Q) :
  lower_cert n x a L p1 p2 delta = true ->
  [/\ (p1 <= L)%Q, (L <= p2)%Q, (p2 - p1 <= (3 # 1) * delta)%Q,
      (forall p, (0 <= p)%Q -> (p <= p1)%Q -> ~ (p1 == 0)%Q -> (binom_upper_q n x p <= a)%Q) &
      (forall p, (p2 <= p)%Q -> (p <= 1)%Q -> ~ (p2 == 1)%Q -> (a <= binom_upper_q n x p)%Q)].
Proof.
rewrite /lower_cert /bracket_ok /in01.
case/andP => /andP [/andP [/andP [/andP [/andP [/andP [a0 a1] /andP [b0 b1]] l1] l2] w] t1] t2.
move: a0 a1 b0 b1 l1 l2 w => /Qle_boolP a0 /Qle_boolP a1 /Qle_boolP b0 /Qle_boolP b1 /Qle_boolP l1 /Qle_boolP l2 /Qle_boolP w.
split=> //.
- move=> p p0 pp1 nz; case/orP: t1 => [/Qle_boolP t1|/Qeq_bool_iff e]; last by case: nz.
  apply: Qle_trans t1; exact: binom_upper_q_mono.
- move=> p pp2 pl1 nz; case/orP: t2 => [/Qle_boolP t2|/Qeq_bool_iff e]; last by case: nz.
  apply: Qle_trans t2 _; exact: binom_upper_q_mono.
Qed.

Theorem upper_cert_sound n x (a U q1 q2 delta : Q) :
  upper_cert n x a U q1 q2 delta = true ->
  [/\ (q1 <= U)%Q, (U <= q2)%Q, (q2 - q1 <= (3 # 1) * delta)%Q,
      (forall p, (0 <= p)%Q -> (p <= q1)%Q -> ~ (q1 == 0)%Q -> (a <= binom_lower_q n x p)%Q) &
      (forall p, (q2 <= p)%Q -> (p <= 1)%Q -> ~ (q2 == 1)%Q -> (binom_lower_q n x p <= a)%Q)].
Proof.
rewrite /upper_cert /bracket_ok /in01.
case/andP => /andP [/andP [/andP [/andP [/andP [/andP [a0 a1] /andP [b0 b1]] l1] l2] w] t1] t2.
move: a0 a1 b0 b1 l1 l2 w => /Qle_boolP a0 /Qle_boolP a1 /Qle_boolP b0 /Qle_boolP b1 /Qle_boolP l1 /Qle_boolP l2 /Qle_boolP w.
split=> //.
- move=> p p0 pp1 nz; case/orP: t2 => [/Qle_boolP t2|/Qeq_bool_iff e]; last by case: nz.
  apply: Qle_trans t2 _; exact: binom_lower_q_anti.
- move=> p pp2 pl1 nz; case/orP: t1 => [/Qle_boolP t1|/Qeq_bool_iff e]; last by case: nz.
  apply: Qle_trans t1; exact: binom_lower_q_anti.
Qed.
