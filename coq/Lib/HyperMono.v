(* L6: the hypergeometric upper tail is nondecreasing in the number G of good items (and so the lower tail is
   nonincreasing), for all N, n, x:  t(G+1) = t(G) + C(G, x-1) C(N-G-1, n-x). *)
From Coq Require Import ZArith.
From PV Require Import Model.TailsZ.
From mathcomp Require Import all_ssreflect zify.
From PV Require Import Lib.Tails Lib.Binom.
Local Open Scope nat_scope.
Set Implicit Arguments. Unset Strict Implicit. Unset Printing Implicit Defensive.

(* upper tail with the number of bad items M = N - G made explicit *)
Definition Uh (G M n x : nat) : nat := \sum_(x <= k < n.+1) 'C(G, k) * 'C(M, n - k).

Lemma upper_whyper N G n x : upper (whyper N G n) x = Uh G (N - G) n x.
Proof. by rewrite /upper /whyper /Uh -map_drop drop_iota add0n sumnE big_map /index_iota. Qed.

Lemma binSr M i : 'C(M.+1, i) = 'C(M, i) + (if i is i'.+1 then 'C(M, i') else 0).
Proof. by case: i => [|i]; rewrite ?bin0 ?addn0 // binS. Qed.

(* the telescoping identity, for x = x'+1 *)
Lemma Uh_step G M n x : Uh G.+1 M n x.+1 = Uh G M.+1 n x.+1 + 'C(G, x) * 'C(M, n - x.+1) * (x < n).
Proof.
rewrite /Uh !big_add1 /=.
(* left:  sum_{x<=j<n} (C(G,j+1)+C(G,j)) C(M, n-j-1) *)
have -> : \sum_(x <= i < n) 'C(G.+1, i.+1) * 'C(M, n - i.+1) =
          \sum_(x <= i < n) 'C(G, i.+1) * 'C(M, n - i.+1) + \sum_(x <= i < n) 'C(G, i) * 'C(M, n - i.+1).
  by rewrite -big_split /=; apply: eq_big_nat => i _; rewrite binS mulnDl.
(* right: sum_{x<=j<n} C(G,j+1) (C(M,n-j-1) + [n-j-1>0] C(M,n-j-2)) *)
have -> : \sum_(x <= i < n) 'C(G, i.+1) * 'C(M.+1, n - i.+1) =
          \sum_(x <= i < n) 'C(G, i.+1) * 'C(M, n - i.+1)
          + \sum_(x <= i < n) 'C(G, i.+1) * (if n - i.+1 is j.+1 then 'C(M, j) else 0).
  by rewrite -big_split /=; apply: eq_big_nat => i _; rewrite binSr mulnDr.
rewrite -addnA; congr (_ + _).
case: (ltnP x n) => xn; last first.
  by rewrite !big_geq // muln0.
rewrite muln1 (big_ltn xn) addnC; congr (_ + _).
(* remaining: sum_{x+1<=j<n} C(G,j) C(M,n-j-1) = sum_{x<=j<n} C(G,j+1) [..]  *)
rewrite big_add1 /=.
case: n xn => // n xn; rewrite [in RHS]big_nat_recr //=.
rewrite subnn muln0 addn0; apply: eq_big_nat => i /andP [_ ilt].
by rewrite subSS subSn.
Qed.

Theorem Uh_mono_G G M n x : Uh G M.+1 n x <= Uh G.+1 M n x.
Proof.
case: x => [|x]; last by rewrite Uh_step leq_addr.
(* x = 0: both are the full Vandermonde sums C(G+M+1, n) *)
have := @Vandermonde G M.+1 n; have := @Vandermonde G.+1 M n.
rewrite /Uh !big_mkord => -> ->; by rewrite addSnnS.
Qed.

(* in terms of the weights of Lib/Binom.v: for G < N the upper tail grows with G, the lower tail shrinks *)
Theorem hyper_upper_mono_G N G n x : G < N -> upper (whyper N G n) x <= upper (whyper N G.+1 n) x.
Proof.
move=> GN; rewrite !upper_whyper.
have -> : N - G = (N - G.+1).+1 by rewrite subnS prednK // subn_gt0.
exact: Uh_mono_G.
Qed.

Theorem hyper_lower_anti_G N G n x : G < N -> lower (whyper N G.+1 n) x <= lower (whyper N G n) x.
Proof.
move=> GN.
have := lower_upper (whyper N G n) x; have := lower_upper (whyper N G.+1 n) x.
rewrite !whyper_total //; last exact: ltnW.
have := @hyper_upper_mono_G N G n x.+1 GN. lia.
Qed.
