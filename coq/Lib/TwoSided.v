(* Validity of the two-sided p-value min(1, 2 min(lower, upper)/total) for any weights (C14). *)
From mathcomp Require Import all_ssreflect zify.
From PV Require Import Lib.Tails.
Set Implicit Arguments. Unset Strict Implicit. Unset Printing Implicit Defensive.

Lemma sumn_nth_sum (w : seq nat) : sumn w = \sum_(0 <= x < size w) nth 0 w x.
Proof. by rewrite sumnE (big_nth 0). Qed.

(* mass_lo is "sum of w_x over the x whose lower tail is accepted" *)
Lemma mass_lo_spec P (w : seq nat) :
  mass_lo P w = \sum_(0 <= x < size w) (if P (lower w x) then nth 0 w x else 0).
Proof.
rewrite /mass_lo mass_up_spec size_rev [RHS]big_nat_rev /= add0n.
apply: eq_big_nat => y /andP [_ ylt].
have e : size w - y.+1 < size w by lia.
rewrite nth_rev //.
suff -> : upper (rev w) y = lower w (size w - y.+1) by [].
rewrite /upper /lower -{1}(cat_take_drop (size w - y.+1).+1 w) rev_cat drop_size_cat ?sumn_rev //.
by rewrite size_rev size_drop; lia.
Qed.

(* two-sided p = min(1, 2*min(lo,up)/tot) <= c/d *)
Definition two_accept (c d tot lo up : nat) : bool := (d <= c) || (2 * minn lo up * d <= c * tot).

Definition mass2 (c d : nat) (w : seq nat) : nat :=
  \sum_(0 <= x < size w) (if two_accept c d (sumn w) (lower w x) (upper w x) then nth 0 w x else 0).

Theorem mass2_le (w : seq nat) (c d : nat) : mass2 c d w * d <= c * sumn w.
Proof.
case dc: (d <= c).
  apply: (@leq_trans (sumn w * d)); last by rewrite mulnC leq_mul2r dc orbT.
  rewrite leq_mul2r; apply/orP; right; rewrite /mass2 [X in _ <= X]sumn_nth_sum.
  by apply: leq_sum => x _; case: ifP.
have H1 := @mass_lo_le w c (2 * d); have H2 := @mass_up_le w c (2 * d).
suff : mass2 c d w <= mass_lo (accept c (2 * d) (sumn w)) w + mass_up (accept c (2 * d) (sumn w)) w by nia.
rewrite mass_lo_spec mass_up_spec -big_split /=; apply: leq_sum => x _.
rewrite /two_accept dc /= /accept.
case: ifP => // H.
case: (leqP (lower w x) (upper w x)) => lu.
  have -> : lower w x * (2 * d) <= c * sumn w by move: H; rewrite (minn_idPl lu); nia.
  by rewrite leq_addr.
have -> : upper w x * (2 * d) <= c * sumn w by move: H; rewrite (minn_idPr (ltnW lu)); nia.
by rewrite leq_addl.
Qed.
