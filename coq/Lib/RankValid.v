(* L1: validity of rank p-values.  For any list of statistics with a total preorder, at most k of them have
   at most k elements that are at least as large ("at most an alpha fraction of exchangeable rows can obtain a
   rank p-value <= alpha"). *)
From Coq Require Import List Lia Bool Arith.
Import ListNotations.

Section Rank.
Variable A : Type.
Variable ge : A -> A -> bool.                 (* ge x y : "x >= y" *)
Hypothesis ge_total : forall x y, ge x y = true \/ ge y x = true.
Hypothesis ge_trans : forall x y z, ge x y = true -> ge y z = true -> ge x z = true.

Definition cge (l : list A) (x : A) : nat := length (filter (fun y => ge y x) l).

Lemma filter_length_le_imp (P Q : A -> bool) l :
  (forall x, In x l -> P x = true -> Q x = true) ->
  length (filter P l) <= length (filter Q l).
Proof.
  induction l as [|a l IH]; intros H; simpl; [lia|].
  assert (IH' := IH (fun x Hx => H x (or_intror Hx))).
  destruct (P a) eqn:Pa.
  - rewrite (H a (or_introl eq_refl) Pa). simpl. lia.
  - destruct (Q a); simpl; lia.
Qed.

Lemma list_min_exists (l : list A) : l <> [] -> exists m, In m l /\ forall x, In x l -> ge x m = true.
Proof.
  induction l as [|a l IH]; [congruence|]. intros _.
  destruct l as [|b l'].
  - exists a. split; [left; reflexivity|]. intros x [->|[]]. destruct (ge_total x x); assumption.
  - destruct IH as [m [Hm Hle]]; [congruence|].
    destruct (ge m a) eqn:E.
    + exists a. split; [left; reflexivity|]. intros x [->|Hx].
      * destruct (ge_total x x); assumption.
      * eapply ge_trans; [apply Hle; exact Hx|exact E].
    + exists m. split; [right; exact Hm|]. intros x [->|Hx]; [|apply Hle; exact Hx].
      destruct (ge_total x m) as [H|H]; [exact H|congruence].
Qed.

Theorem rank_pvalue_valid (l : list A) (k : nat) :
  length (filter (fun x => Nat.leb (cge l x) k) l) <= k.
Proof.
  set (S := filter (fun x => Nat.leb (cge l x) k) l).
  destruct S as [|s S'] eqn:HS; [simpl; lia|].
  destruct (list_min_exists S) as [m [Hm Hmin]]; [subst S; rewrite HS; congruence|].
  rewrite <- HS.
  pose proof (proj1 (filter_In (fun x => Nat.leb (cge l x) k) m l) Hm) as Hm'. cbv beta in Hm'.
  destruct Hm' as [_ Hck]. apply Nat.leb_le in Hck.
  eapply Nat.le_trans; [|exact Hck].
  unfold cge. apply filter_length_le_imp.
  intros x Hx Px. apply Hmin. apply (proj2 (filter_In (fun x => Nat.leb (cge l x) k) x l)). split; assumption.
Qed.
End Rank.
