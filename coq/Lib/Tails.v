(* Weighted tails over nat: the exact laws behind binomial_p / hypergeometric and the
   confidence bounds (C12, C13, C14).  MathComp style. *)
From mathcomp Require Import all_ssreflect zify.
Set Implicit Arguments. Unset Strict Implicit. Unset Printing Implicit Defensive.

(* weights w_0 .. w_m ; upper x = sum_{k >= x} w_k ; lower x = sum_{k <= x} w_k *)
Definition upper (w : seq nat) (x : nat) : nat := sumn (drop x w).
Definition lower (w : seq nat) (x : nat) : nat := sumn (take x.+1 w).

Lemma lower_upper w x : lower w x + upper w x.+1 = sumn w.
Proof. by rewrite /lower /upper -sumn_cat cat_take_drop. Qed.

Lemma upper_anti w x : upper w x.+1 <= upper w x.
Proof.
rewrite /upper; elim: w x => [|a w IH] [|x] //=; first by rewrite drop0 leq_addl.
Qed.
Lemma upper_antitone w x y : x <= y -> upper w y <= upper w x.
Proof.
move=> /subnK <-; elim: (y - x) => [|d IH] //.
by rewrite addSn; apply: leq_trans (upper_anti _ _) IH.
Qed.
Lemma lower_mono w x : lower w x <= lower w x.+1.
Proof.
have := lower_upper w x; have := lower_upper w x.+1; have := upper_anti w x.+1. lia.
Qed.
Lemma lower_monotone w x y : x <= y -> lower w x <= lower w y.
Proof.
move=> /subnK <-; elim: (y - x) => [|d IH] //.
by rewrite addSn; apply: leq_trans IH (lower_mono _ _).
Qed.
Lemma upper0 w : upper w 0 = sumn w. Proof. by rewrite /upper drop0. Qed.
Lemma upper_le_total w x : upper w x <= sumn w.
Proof. by rewrite -upper0; apply: upper_antitone. Qed.
Lemma lower_le_total w x : lower w x <= sumn w.
Proof. by rewrite -(lower_upper w x) leq_addr. Qed.

(* Validity of a tail p-value.  P is any downward-closed acceptance region for the tail value
   (e.g. "tail * d <= c * total", i.e. p-value <= c/d).  The total weight of the outcomes x whose
   upper tail lies in P is itself an upper tail lying in P (or zero). *)
Section Valid.
Variable P : nat -> bool.
Hypothesis P_down : forall u v, v <= u -> P u -> P v.

Fixpoint mass_up (w : seq nat) : nat :=
  if w is a :: w' then (if P (a + sumn w') then a else 0) + mass_up w' else 0.

Lemma mass_up_all w : P (sumn w) -> mass_up w = sumn w.
Proof.
elim: w => [|a w IH] //= Pa; rewrite Pa IH //.
by apply: P_down Pa; rewrite leq_addl.
Qed.

Lemma mass_up_tail w : mass_up w = 0 \/ exists x, P (upper w x) /\ mass_up w = upper w x.
Proof.
elim: w => [|a w IH] /=; first by left.
case Pa: (P (a + sumn w)).
- right; exists 0; rewrite /upper drop0 /= Pa; split=> //.
  by rewrite mass_up_all //; apply: P_down Pa; rewrite leq_addl.
- case: IH => [->|[x [Px ->]]]; first by left.
  by right; exists x.+1.
Qed.
End Valid.

(* threshold form: p-value = upper/total <= c/d *)
Definition accept (c d tot : nat) : nat -> bool := fun u => u * d <= c * tot.

Lemma mass_up_le (w : seq nat) (c d : nat) :
  mass_up (accept c d (sumn w)) w * d <= c * sumn w.
Proof.
set P := accept _ _ _.
have Pd : forall u v, v <= u -> P u -> P v.
  by move=> u v vu; rewrite /P => H; apply: leq_trans H; rewrite leq_mul2r vu orbT.
case: (mass_up_tail Pd w) => [->|[x [Px ->]]] //.
Qed.

(* the same for lower tails, by reversal *)
Definition mass_lo (P : nat -> bool) (w : seq nat) : nat := mass_up P (rev w).

Lemma mass_lo_le (w : seq nat) (c d : nat) :
  mass_lo (accept c d (sumn w)) w * d <= c * sumn w.
Proof.
rewrite /mass_lo.
have E : sumn (rev w) = sumn w by rewrite sumn_rev.
by have := @mass_up_le (rev w) c d; rewrite E.
Qed.

(* mass_up really is "sum of w_x over the x whose upper tail is accepted" *)
Lemma mass_up_spec P (w : seq nat) :
  mass_up P w = \sum_(0 <= x < size w) (if P (upper w x) then nth 0 w x else 0).
Proof.
elim: w => [|a w IH]; first by rewrite big_nil.
by rewrite /= big_nat_recl // IH /upper drop0 /=; congr (_ + _).
Qed.
