(* The p-value tables of the source, as functions of the quantities the source gives them, and their relation to
   the models.  harness/translate/tables.py re-derives the tables from /repo's current source text on every run
   (Generated/Cxx_G3_tables.v) and proves them equal to these. *)
From PV Require Import Lib.Base Model.Prng Model.Core Model.Stratified Model.Pvalues Model.ConfInt.
From Coq Require Import Lqa.
Open Scope Q_scope.

(* two_sample_core / one_sample: thePvalue[alternative](pUp, pDn) with E = plus1/(reps+plus1) *)
Definition core_table (a : alt) (pUp pDn E : Q) : Q :=
  match a with
  | Greater => pUp + E
  | Less => pDn + E
  | TwoSided => (2 # 1) * Qmin (1 # 2) (Qmin (pUp + E) (pDn + E))
  end.
Lemma core_table_is_model a hU hD reps plus1 :
  the_pvalue a hU hD reps plus1 =
  core_table a (qn hU / (qn reps + qn (cc plus1))) (qn hD / (qn reps + qn (cc plus1))) (qn (cc plus1) / (qn reps + qn (cc plus1))).
Proof. destruct a; reflexivity. Qed.

(* sim_corr / stratified_permutationtest / stratified_two_sample: thePvalue[alternative](p) as written in the source
   (the 'less' and 'two-sided' rows are the recorded known finding) *)
Definition strat_table (a : alt) (p E : Q) : Q :=
  match a with
  | Greater => p + E
  | Less => 1 - (p + E)
  | TwoSided => (2 # 1) * Qmin (p + E) (1 - (p + E))
  end.
Lemma strat_table_is_model a hits reps plus1 :
  strat_pvalue a hits reps plus1 =
  strat_table a (qn hits / (qn reps + qn (cc plus1))) (qn (cc plus1) / (qn reps + qn (cc plus1))).
Proof. destruct a; reflexivity. Qed.

(* corr: if-chain over left_pv / right_pv *)
Definition corr_table (a : alt) (left right : Q) : Q :=
  match a with
  | Greater => right
  | Less => left
  | TwoSided => Qmin 1 ((2 # 1) * Qmin left right)
  end.
Lemma corr_table_is_model a tst sims plus1 :
  corr_pvalue a tst sims plus1 =
  corr_table a (perm_pvalue (cc plus1) (count_le tst sims) (length sims)) (perm_pvalue (cc plus1) (count_ge tst sims) (length sims)).
Proof. destruct a; reflexivity. Qed.

(* hypergeometric / binomial_p: if-chain over plower / pupper *)
Definition exact_table (a : alt) (pl pu : Q) : Q :=
  match a with
  | TwoSided => (2 # 1) * Qmin (Qmin pl pu) (1 # 2)
  | Greater => pu
  | Less => pl
  end.
Lemma exact_table_is_model a pl pu : pick_alt a pl pu = exact_table a pl pu.
Proof. destruct a; reflexivity. Qed.

(* ---- scalar formulas of the source (obligations G4) ---- *)
(* Monte-Carlo p-value (H + c)/(reps + c): k_sample, bivariate_k_sample, simulate_ts_dist, sim_npc's partial p-values *)
Definition mc_pvalue (H c r : Q) : Q := (H + c) / (r + c).
Lemma mc_pvalue_is_model c H reps : perm_pvalue c H reps = mc_pvalue (qn H) (qn c) (qn reps).
Proof. reflexivity. Qed.
(* npc: row p-values from min-ranks, final count *)
Definition npc_row (B Rk c : Q) : Q := (B - Rk + 1 + (2 # 1) * c) / (c + B).
Definition npc_final (c hits B : Q) : Q := (c + hits) / (c + B).
(* sprt thresholds *)
Definition wald_A (alpha beta : Q) : Q := beta / (1 - alpha).
Definition wald_B (alpha beta : Q) : Q := (1 - beta) / alpha.
(* confidence intervals: level used by the solvers after the two-sided split *)
Definition split_level (cl : Q) : Q := 1 - (1 - cl) / (2 # 1).

(* adjust_p: the vectorised base values, entrywise (x = p-value, rk = its min / max rank) *)
Definition adj_holm (x n rk : Q) : Q := Qmin (x * (n - rk + 1)) 1.
Definition adj_bonf (x n : Q) : Q := Qmin (x * n) 1.
Definition adj_bh (x n rk : Q) : Q := Qmin (x * (n / rk)) 1.
(* westfall_young: permutation p-value of a simulated row: (#{>=} + [<= observed]) / (reps+1), #{>=} = L - rank_min + 1 *)
Definition wy_ps (L Rk I r : Q) : Q := (L - Rk + 1 + I) / (r + 1).

Ltac formula_tac :=
  intros; cbv beta delta [mc_pvalue npc_row npc_final wald_A wald_B split_level adj_holm adj_bonf adj_bh wy_ps] iota;
  first [reflexivity | field; auto | lra].

(* the tactic used by the generated obligations: case analysis on every min, then linear arithmetic *)
Lemma Qmin_cases a b : (a <= b /\ Qmin a b = a) \/ (b < a /\ Qmin a b = b).
Proof.
  unfold Qmin. destruct (Qle_bool a b) eqn:E.
  - left. split; [apply Qle_bool_iff; exact E|reflexivity].
  - right. split; [|reflexivity]. apply Qnot_le_lt. intros H. apply Qle_bool_iff in H. congruence.
Qed.
Ltac split_min a b :=
  let H := fresh "H" in let E := fresh "E" in
  destruct (Qmin_cases a b) as [[H E]|[H E]]; rewrite E in *; clear E.
Ltac table_tac :=
  intros; cbv beta delta [core_table strat_table corr_table exact_table] iota;
  repeat match goal with
         | |- context [Qmin ?a ?b] => split_min a b
         | H0 : context [Qmin ?a ?b] |- _ => split_min a b
         end;
  lra.

(* ---- argument guards (obligations G5): "raises ValueError" as a boolean over the natural-number arguments ---- *)
Definition hyper_guard (x N n G : nat) : bool := Nat.ltb n x || Nat.ltb N n || Nat.ltb N G || Nat.ltb G x.
Definition binom_guard (x n : nat) : bool := Nat.ltb n x.
Lemma hyper_guard_is_model x N n G a : hyper_guard x N n G = true <-> hypergeometric x N n G a = Err ValueError.
Proof.
  unfold hyper_guard, hypergeometric.
  destruct (Nat.ltb n x); [cbn; tauto|]. destruct (Nat.ltb N n); [cbn; tauto|].
  destruct (Nat.ltb N G); [cbn; tauto|]. destruct (Nat.ltb G x); cbn; split; intros H; try discriminate; tauto.
Qed.
Lemma binom_guard_is_model x n pa pb a : binom_guard x n = true <-> binomial_p x n pa pb a = Err ValueError.
Proof. unfold binom_guard, binomial_p. destruct (Nat.ltb n x); cbn; split; intros H; try discriminate; tauto. Qed.
From Coq Require Import Lia.
Ltac guard_tac :=
  cbv beta delta [hyper_guard binom_guard];
  apply Bool.eq_true_iff_eq;
  repeat rewrite Bool.orb_true_iff; repeat rewrite Nat.ltb_lt; repeat rewrite Nat.leb_le; lia.

(* ---- control conditions (obligations G7): booleans built from Qle_bool / Nat.ltb atoms.  Every atom is decided
   (reflecting it into a proposition), the goal is then closed by computation or, in impossible cases, by lra ---- *)
Ltac cond_tac :=
  repeat match goal with
         | |- context [Qle_bool ?a ?b] =>
             let E := fresh "E" in destruct (Qle_bool a b) eqn:E;
             [apply Qle_bool_iff in E | apply Bool.not_true_iff_false in E; rewrite Qle_bool_iff in E]
         | |- context [Nat.ltb ?a ?b] => destruct (Nat.ltb a b)
         end;
  cbn; try reflexivity; exfalso; lra.

(* ---- the integer bisections of hypergeom_conf_interval (obligations G8): one loop iteration as a function ---- *)
Definition bisect_min_step (ok : nat -> bool) (lo hi : nat) : nat * nat :=
  let mid := Nat.div2 (lo + hi)%nat in if ok mid then (lo, mid) else (S mid, hi).
Definition bisect_max_step (ok : nat -> bool) (lo hi : nat) : nat * nat :=
  let mid := Nat.div2 (lo + hi + 1)%nat in if ok mid then (mid, hi) else (lo, (mid - 1)%nat).
Lemma bisect_min_unfold ok lo hi f :
  bisect_min ok lo hi (S f) = if Nat.ltb lo hi then bisect_min ok (fst (bisect_min_step ok lo hi)) (snd (bisect_min_step ok lo hi)) f else lo.
Proof. cbn [bisect_min]. unfold bisect_min_step. destruct (Nat.ltb lo hi); [|reflexivity]. cbv zeta. destruct (ok _); reflexivity. Qed.
Lemma bisect_max_unfold ok lo hi f :
  bisect_max ok lo hi (S f) = if Nat.ltb lo hi then bisect_max ok (fst (bisect_max_step ok lo hi)) (snd (bisect_max_step ok lo hi)) f else lo.
Proof. cbn [bisect_max]. unfold bisect_max_step. destruct (Nat.ltb lo hi); [|reflexivity]. cbv zeta. destruct (ok _); reflexivity. Qed.
