(* Generic insertion sort over a total, transitive boolean order. *)
From PV Require Import Lib.Base.
From Coq Require Import Sorting.Permutation Sorting.Sorted.

Section Sort.
Variable A : Type.
Variable leb : A -> A -> bool.
Hypothesis leb_total : forall a b, leb a b = true \/ leb b a = true.
Hypothesis leb_trans : forall a b c, leb a b = true -> leb b c = true -> leb a c = true.

Fixpoint insert (a : A) (l : list A) : list A :=
  match l with
  | [] => [a]
  | b :: t => if leb a b then a :: l else b :: insert a t
  end.
Definition isort (l : list A) : list A := fold_right insert [] l.

Lemma insert_perm a l : Permutation (a :: l) (insert a l).
Proof.
  induction l as [|b t IH]; simpl; [reflexivity|].
  destruct (leb a b); [reflexivity|].
  rewrite perm_swap. constructor. exact IH.
Qed.
Lemma isort_perm l : Permutation l (isort l).
Proof.
  induction l as [|a l IH]; simpl; [constructor|].
  rewrite <- insert_perm. constructor. exact IH.
Qed.

Lemma insert_sorted a l :
  StronglySorted (fun x y => leb x y = true) l ->
  StronglySorted (fun x y => leb x y = true) (insert a l).
Proof.
  induction 1 as [|b t Hs IH Hb]; simpl.
  - constructor; constructor.
  - destruct (leb a b) eqn:E.
    + constructor; [constructor; assumption|].
      constructor; [exact E|].
      rewrite Forall_forall in *. intros x Hx. eapply leb_trans; [exact E|]. apply Hb; exact Hx.
    + constructor; [exact IH|].
      assert (Hba : leb b a = true) by (destruct (leb_total a b); congruence).
      rewrite Forall_forall in *. intros x Hx.
      apply (Permutation_in _ (Permutation_sym (insert_perm a t))) in Hx.
      destruct Hx as [->|Hx]; [exact Hba|apply Hb; exact Hx].
Qed.
Lemma isort_sorted l : StronglySorted (fun x y => leb x y = true) (isort l).
Proof. induction l; simpl; [constructor|apply insert_sorted; assumption]. Qed.
End Sort.
Arguments insert {A}. Arguments isort {A}.
