(* L2: the Monte-Carlo hit count over the product answer space is binomial.
   Generic chain form: the state after each repetition may depend on the previous ones (two_sample_core
   shuffles the index list it shuffled before); what is needed is that from every reachable state the
   number of answers that produce a hit is the same number a. *)
From mathcomp Require Import all_ssreflect zify.
Set Implicit Arguments. Unset Strict Implicit. Unset Printing Implicit Defensive.

Section Chain.
Variables (S D : Type).
Variable step : S -> D -> S.
Variable hit : S -> D -> bool.          (* does answer d, given from state s, produce a hit? *)
Variable dom : seq D.                   (* the answer space of one repetition *)
Variable Inv : S -> Prop.
Variable okD : D -> bool.               (* well-formed answers; every element of dom is one *)
Hypothesis dom_ok : all okD dom.
Hypothesis Inv_step : forall s d, okD d -> Inv s -> Inv (step s d).
Variable a : nat.
Hypothesis hits_a : forall s, Inv s -> count (hit s) dom = a.

(* all answer sequences for r repetitions *)
Fixpoint tuples (r : nat) : seq (seq D) :=
  match r with
  | 0 => [:: [::]]
  | r'.+1 => [seq t :: ts | t <- dom, ts <- tuples r']
  end.
Lemma tuplesS r : tuples r.+1 = [seq t :: ts | t <- dom, ts <- tuples r].
Proof. by []. Qed.
Lemma size_tuples r : size (tuples r) = size dom ^ r.
Proof. by elim: r => // r IH; rewrite tuplesS size_allpairs IH expnS. Qed.

(* number of hits along an answer sequence started in s *)
Fixpoint nhits (s : S) (ds : seq D) : nat :=
  match ds with
  | [::] => 0
  | d :: ds' => hit s d + nhits (step s d) ds'
  end.

Definition N (s : S) (r h : nat) := count (fun ds => nhits s ds == h) (tuples r).

Lemma count_allpairs_cons (P : seq D -> bool) (L : seq (seq D)) :
  count P [seq t :: ts | t <- dom, ts <- L] = sumn [seq count (fun ts => P (t :: ts)) L | t <- dom].
Proof.
rewrite count_flatten -map_comp; congr sumn; apply: eq_map => t /=.
by rewrite count_map.
Qed.

Theorem hits_binomial_chain r : forall s h, Inv s ->
  N s r h = 'C(r, h) * a ^ h * (size dom - a) ^ (r - h).
Proof.
elim: r => [|r IH] s h Is.
  by rewrite /N /=; case: h => [|h] //=; rewrite bin0n.
have ale : a <= size dom by rewrite -(hits_a Is) count_size.
rewrite /N tuplesS count_allpairs_cons.
have step1 : forall t, okD t ->
   count (fun ts => nhits s (t :: ts) == h) (tuples r) =
   if hit s t then (if h is h'.+1 then 'C(r, h') * a ^ h' * (size dom - a) ^ (r - h') else 0)
   else 'C(r, h) * a ^ h * (size dom - a) ^ (r - h).
  move=> t okt /=; case ht: (hit s t) => /=.
  - case: h => [|h'].
      by rewrite (@eq_count _ _ pred0) ?count_pred0 // => ts /=; rewrite add1n.
    rewrite -(IH (step s t) h' (Inv_step okt Is)) /N; apply: eq_count => ts /=; by rewrite add1n eqSS.
  - rewrite -(IH (step s t) h (Inv_step okt Is)) /N; apply: eq_count => ts /=; by rewrite add0n.
have -> : sumn [seq count (fun ts => nhits s (t :: ts) == h) (tuples r) | t <- dom] =
          count (hit s) dom * (if h is h'.+1 then 'C(r, h') * a ^ h' * (size dom - a) ^ (r - h') else 0)
          + (size dom - count (hit s) dom) * ('C(r, h) * a ^ h * (size dom - a) ^ (r - h)).
  move: step1; move: (if h is h'.+1 then _ else 0) ('C(r, h) * _ * _) => X Y step1.
  move: (tuples r) step1 => L step1.
  elim: dom dom_ok => [|t l IHl] //= /andP [okt okl].
  rewrite (step1 t okt) (IHl okl).
  have := count_size (hit s) l; case: (hit s t) => /=; nia.
clear step1; rewrite (hits_a Is); set b := size dom - a.
case: h => [|h].
  rewrite !bin0 !expn0 !subn0 expnS; set X := b ^ r; nia.
rewrite binS subSS.
case: (leqP h r) => hr; last first.
  rewrite !bin_small ?mul0n ?muln0 ?addn0 //; apply: ltnW => //; exact: ltnW.
rewrite mulnDl mulnDl addnC; congr (_ + _).
- case: (ltnP h r) => hr2; last first.
    have -> : h = r by apply/eqP; rewrite eqn_leq hr hr2.
    by rewrite bin_small // !mul0n muln0.
  rewrite -(subnSK hr2) [b ^ _.+1]expnS; set X := a ^ h.+1; set Y := b ^ (r - h.+1); set Cb := 'C(r, h.+1); nia.
- rewrite expnS; set X := a ^ h; set Y := b ^ (r - h); set Cb := 'C(r, h). nia.
Qed.
End Chain.
