(* Binomial / hypergeometric weights over nat (MathComp), their totals (Vandermonde, Pascal) and
   the bridge to the executable Z versions of Model/TailsZ.v. *)
From Coq Require Import ZArith List.
From PV Require Import Model.TailsZ.
From mathcomp Require Import all_ssreflect zify.
From PV Require Import Lib.Tails.
Local Open Scope nat_scope.
Set Implicit Arguments. Unset Strict Implicit. Unset Printing Implicit Defensive.

Definition whyper (N G n : nat) : seq nat := [seq 'C(G, k) * 'C(N - G, n - k) | k <- iota 0 n.+1].
Definition wbinom (n a b : nat) : seq nat := [seq 'C(n, k) * a ^ k * b ^ (n - k) | k <- iota 0 n.+1].

Lemma sumn_map_iota (f : nat -> nat) n :
  sumn [seq f k | k <- iota 0 n.+1] = \sum_(j < n.+1) f j.
Proof. by rewrite sumnE big_map -[iota 0 n.+1]/(index_iota 0 n.+1) big_mkord. Qed.

Lemma whyper_total N G n : G <= N -> sumn (whyper N G n) = 'C(N, n).
Proof. by move=> le; rewrite /whyper sumn_map_iota Vandermonde subnKC. Qed.

Lemma wbinom_total n a b : sumn (wbinom n a b) = (a + b) ^ n.
Proof.
rewrite /wbinom sumn_map_iota addnC Pascal; apply: eq_bigr => i _.
by rewrite -mulnA [a ^ i * _]mulnC.
Qed.

(* ---- bridge to Z ---- *)
Local Open Scope Z_scope.

Lemma nth_next_row p r k :
  List.nth k (next_row p r) 0 = List.nth k (p :: r) 0 + List.nth k r 0.
Proof.
elim: r p k => [|a t IH] p [|k] /=.
- lia.
- case: k => [|k] /=; lia.
- lia.
- by rewrite IH.
Qed.

Lemma zbin_bin n k : zbin n k = Z.of_nat 'C(n, k).
Proof.
rewrite /zbin; elim: n k => [|n IH] k.
  by case: k => [|[|k]] //=.
rewrite [pascal_row _]/= nth_next_row; case: k => [|k] /=.
  by rewrite IH !bin0.
rewrite !IH binS. lia.
Qed.

Lemma zsum_map_of_nat (s : seq nat) : zsum (List.map Z.of_nat s) = Z.of_nat (sumn s).
Proof. elim: s => [|a s IH] //=. rewrite IH. lia. Qed.

Lemma skipn_drop T n (s : seq T) : List.skipn n s = drop n s.
Proof. by elim: n s => [|n IH] [|a s] //=. Qed.
Lemma firstn_take T n (s : seq T) : List.firstn n s = take n s.
Proof. by elim: n s => [|n IH] [|a s] //=; rewrite IH. Qed.
Lemma map_map_ssr T U (f : T -> U) (s : seq T) : List.map f s = map f s.
Proof. by []. Qed.

Lemma upperZ_of_nat (w : seq nat) x : upperZ (List.map Z.of_nat w) x = Z.of_nat (upper w x).
Proof. by rewrite /upperZ /upper skipn_drop map_map_ssr -map_drop -map_map_ssr zsum_map_of_nat. Qed.
Lemma lowerZ_of_nat (w : seq nat) x : lowerZ (List.map Z.of_nat w) x = Z.of_nat (lower w x).
Proof. by rewrite /lowerZ /lower firstn_take map_map_ssr -map_take -map_map_ssr zsum_map_of_nat. Qed.

Lemma seq_iota a n : List.seq a n = iota a n.
Proof. by elim: n a => [|n IH] a //=; rewrite IH. Qed.

Lemma hyper_w_of_nat N G n : hyper_w N G n = List.map Z.of_nat (whyper N G n).
Proof.
rewrite /hyper_w /whyper seq_iota !map_map_ssr -map_comp; apply: eq_map => k /=.
by rewrite -!/(zbin _ _) !zbin_bin !minusE Nat2Z.inj_mul.
Qed.

Lemma binom_w_of_nat n a b :
  binom_w n (Z.of_nat a) (Z.of_nat b) = List.map Z.of_nat (wbinom n a b).
Proof.
rewrite /binom_w /wbinom seq_iota !map_map_ssr -map_comp; apply: eq_map => k /=.
rewrite -!/(zbin _ _) !zbin_bin !minusE !Nat2Z.inj_mul.
have pw : forall x y : nat, Z.of_nat (x ^ y) = Z.of_nat x ^ Z.of_nat y.
  move=> x y; elim: y => [|y IHy] //; rewrite expnS Nat2Z.inj_mul IHy Nat2Z.inj_succ Z.pow_succ_r //; lia.
by rewrite !pw.
Qed.
