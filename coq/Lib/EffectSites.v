(* Allow-lists for the source-derived effect obligations regenerated from /repo on every run
   (harness/translate/effects.py): where numpy's global generator may be used, and which functions may write
   into an object they received. *)
From Coq Require Import String List Bool.
Import ListNotations.
Open Scope string_scope.

(* G1: np.random.<fn> is allowed only in utils.get_prng (the seed=None branch draws a seed from it) *)
Definition rng_site_ok (s : string * string) : bool :=
  String.eqb (fst s) "utils" && String.eqb (snd s) "get_prng".

(* G2: (module, function, written parameter) *)
Definition is_self_method (fn : string) : bool :=
  existsb (String.eqb fn)
    ["Experiment.__init__"; "Experiment.Randomizer.__init__"; "Experiment.Randomizer.reset_seed";
     "Randomizer.__init__"; "Randomizer.reset_seed"].
Definition write_ok (s : string * string * string) : bool :=
  let '(m, fn, target) := s in
  (String.eqb target "self" && is_self_method fn && String.eqb m "npc")
  || (String.eqb m "npc" && String.eqb target "data"
      && (String.eqb fn "randomize_group" || String.eqb fn "randomize_in_strata")).
