(* Tape-level consequences of Lib/Shuffle.v for the functions of Model/Prng.v: every Ok result is a
   rearrangement (for ALL tapes), and over the answer space each rearrangement arises exactly once. *)
From PV Require Import Lib.Base Model.Prng Lib.Shuffle.
From mathcomp Require Import all_ssreflect.
Local Open Scope nat_scope.
Set Implicit Arguments. Unset Strict Implicit. Unset Printing Implicit Defensive.

(* ---- what draws_from returns ---- *)
Lemma draws_fromP n k t ds t' :
  draws_from n k t = Ok (ds, t') ->
  [/\ size ds = k, t = ds ++ t' & forall i, i < k -> nth 0 ds i < n - i].
Proof.
elim: k n t ds t' => [|k IH] n t ds t' /=.
  by case=> <- <-; split.
case: t => [|a t] //=; case: ifP => // an; rewrite /=.
case E: (draws_from n.-1 k t) => [[ds1 t1]|] //= [<- <-].
have [sz -> bd] := IH _ _ _ _ E; split=> //=; first by rewrite sz.
case=> [|i] /=; first by rewrite subn0.
rewrite ltnS => /bd; case: n an {E bd} => // m _; by rewrite subSS.
Qed.

Lemma mem_draws n d : (d \in draws n) = (size d == n) && all (fun i => nth 0 d i < n - i) (iota 0 n).
Proof.
elim: n d => [|n IH] d.
  by rewrite inE /=; case: d.
apply/idP/idP.
  case/drawsP => j [d' [-> jlt]]; rewrite IH => /andP [/eqP sz al].
  rewrite /= sz eqxx subn0 jlt /=.
  rewrite -[1]addn0 iotaDl all_map; apply: sub_all al => i /=; by rewrite subSS.
case: d => [|j d] // /andP [sz]; rewrite [iota 0 n.+1]/= [all _ (_ :: _)]/= => /andP [jlt al].
rewrite drawsS; apply/allpairsP; exists (j, d); split=> //.
  by rewrite mem_iota add0n; move: jlt; rewrite /= subn0.
rewrite [(j, d).2]/= IH; move: sz; rewrite /= eqSS => ->; rewrite /=.
move: al; rewrite -[1]addn0 iotaDl all_map; apply: sub_all => i /=; by rewrite subSS.
Qed.

Lemma draws_from_full n t ds t' : draws_from n n t = Ok (ds, t') -> ds \in draws n /\ t = ds ++ t'.
Proof.
move=> /draws_fromP [sz -> bd]; split=> //; rewrite mem_draws sz eqxx /=.
by apply/allP => i; rewrite mem_iota add0n => /andP [_ /bd].
Qed.

Lemma draws_from_butlast n t ds t' : 0 < n ->
  draws_from n n.-1 t = Ok (ds, t') -> rcons ds 0 \in draws n /\ t = ds ++ t'.
Proof.
move=> npos /draws_fromP [sz -> bd]; split=> //; rewrite mem_draws size_rcons sz prednK // eqxx /=.
apply/allP => i; rewrite mem_iota add0n => /andP [_ ilt].
rewrite nth_rcons sz; case: (ltnP i n.-1) => [lt|le]; first exact: bd.
have -> : i = n.-1 by apply/eqP; rewrite eqn_leq le andbT -ltnS prednK.
by rewrite eqxx subn_gt0 prednK.
Qed.

Lemma draws_from_ok n ds t' : ds \in draws n -> draws_from n n (ds ++ t') = Ok (ds, t').
Proof.
elim: n ds => [|n IH] ds; first by rewrite inE => /eqP ->.
case/drawsP => j [d [-> jlt din]] /=; by rewrite jlt /= IH.
Qed.

(* ---- naturality of the two picks: shuffling commutes with relabelling ---- *)
Section Natural.
Variables (T U : Type) (f : T -> U).

Lemma map_set_nth x0 (s : seq T) j y : j < size s ->
  map f (set_nth x0 s j y) = set_nth (f x0) (map f s) j (f y).
Proof. by elim: s j => // a s IH [|j] //= /IH ->. Qed.

Lemma fy_pick_map x0 (l : seq T) j : j < size l ->
  fy_pick (f x0) (map f l) j = (f (fy_pick x0 l j).1, map f (fy_pick x0 l j).2).
Proof.
case: l => // x xs; case: j => [|j] //= jlt.
by rewrite (nth_map x0) // map_set_nth.
Qed.

Lemma last_pick_map x0 (l : seq T) j : j < size l ->
  last_pick (f x0) (map f l) j = (f (last_pick x0 l j).1, map f (last_pick x0 l j).2).
Proof.
move=> jlt; rewrite /last_pick size_map -map_take size_map last_map.
case: ltnP => jb /=; last by [].
by rewrite (nth_map x0) // map_set_nth.
Qed.

Variable pick : forall V : Type, V -> seq V -> nat -> V * seq V.
Hypothesis pick_map : forall x0 (l : seq T) j, j < size l ->
  pick (f x0) (map f l) j = (f (pick x0 l j).1, map f (pick x0 l j).2).
Hypothesis pick_sz : forall x0 (l : seq T) j, j < size l -> size (pick x0 l j).2 = (size l).-1.

Lemma shuf_map n : forall (l : seq T) d, size l = n -> d \in draws n ->
  shuf (@pick U) (map f l) d = map f (shuf (@pick T) l d).
Proof.
elim: n => [|n IH] l d szl.
  by rewrite inE => /eqP ->; rewrite (size0nil szl).
case/drawsP => j [d' [-> jlt din]]; case: l szl => // x xs szl /=.
have jl : j < size (x :: xs) by rewrite szl.
rewrite (pick_map x jl) /=; congr (_ :: _); apply: IH => //.
by rewrite pick_sz // szl.
Qed.
End Natural.

Section Perm.
Variable T : Type.
Variable x0 : T.

Lemma fy_size (V : eqType) (y : V) (l : seq V) j : j < size l -> size (fy_pick y l j).2 = (size l).-1.
Proof. by move=> jl; have /perm_size /= <- := fy_pick_perm y jl. Qed.
Lemma last_size (V : eqType) (y : V) (l : seq V) j : j < size l -> size (last_pick y l j).2 = (size l).-1.
Proof. by move=> jl; have /perm_size /= <- := last_pick_perm y jl. Qed.

(* every output is the input read through a permutation of its indices *)
Lemma shuf_fy_index (x : seq T) d : d \in draws (size x) ->
  shuf (@fy_pick T) x d = [seq nth x0 x i | i <- shuf (@fy_pick nat) (iota 0 (size x)) d]
  /\ perm_eq (shuf (@fy_pick nat) (iota 0 (size x)) d) (iota 0 (size x)).
Proof.
move=> din; split; last first.
  by apply: (shuf_perm (@fy_pick_perm _) _ din); rewrite size_iota.
rewrite -(@shuf_map nat T (nth x0 x) (fun V => @fy_pick V) _ _ (size x)) ?size_iota //.
- by rewrite map_nth_iota0 // take_size.
- by move=> y l j jl; apply: fy_pick_map.
- by move=> y l j jl; apply: (@fy_size nat_eqType).
Qed.

Lemma shuf_last_index (x : seq T) d : d \in draws (size x) ->
  shuf (@last_pick T) x d = [seq nth x0 x i | i <- shuf (@last_pick nat) (iota 0 (size x)) d]
  /\ perm_eq (shuf (@last_pick nat) (iota 0 (size x)) d) (iota 0 (size x)).
Proof.
move=> din; split; last first.
  by apply: (shuf_perm (@last_pick_perm _) _ din); rewrite size_iota.
rewrite -(@shuf_map nat T (nth x0 x) (fun V => @last_pick V) _ _ (size x)) ?size_iota //.
- by rewrite map_nth_iota0 // take_size.
- by move=> y l j jl; apply: last_pick_map.
- by move=> y l j jl; apply: (@last_size nat_eqType).
Qed.

(* permute / sample_all / pyshuffle: for EVERY tape on which they succeed the result is the input read
   through a permutation sigma of the indices, and exactly size-many (resp. size-1) answers are consumed *)
Theorem permute_is_rearrangement (x : seq T) t y t' :
  permute x t = Ok (y, t') ->
  exists sigma, [/\ perm_eq sigma (iota 0 (size x)), y = [seq nth x0 x i | i <- sigma] & size t = size x + size t'].
Proof.
rewrite /permute; case E: (draws_from _ _ _) => [[ds t1]|] //= [<- <-].
have [din ->] := draws_from_full E; have [eq pe] := shuf_fy_index din.
exists (shuf (@fy_pick nat) (iota 0 (size x)) ds); split=> //.
by rewrite size_cat (draws_size din).
Qed.

Theorem sample_all_is_rearrangement (x : seq T) t y t' :
  sample_all x t = Ok (y, t') ->
  exists sigma, [/\ perm_eq sigma (iota 0 (size x)), y = [seq nth x0 x i | i <- sigma] & size t = size x + size t'].
Proof.
rewrite /sample_all; case E: (draws_from _ _ _) => [[ds t1]|] //= [<- <-].
have [din ->] := draws_from_full E; have [eq pe] := shuf_last_index din.
exists (shuf (@last_pick nat) (iota 0 (size x)) ds); split=> //.
by rewrite size_cat (draws_size din).
Qed.

Theorem pyshuffle_is_rearrangement (x : seq T) t y t' :
  pyshuffle x t = Ok (y, t') ->
  exists sigma, [/\ perm_eq sigma (iota 0 (size x)), y = [seq nth x0 x i | i <- sigma] & size t = (size x).-1 + size t'].
Proof.
rewrite /pyshuffle; case E: (draws_from _ _ _) => [[ds t1]|] //= [<- <-].
case: (posnP (size x)) => [sz0|npos].
  move: E; rewrite sz0 /= => -[<- <-]; exists [::]; split=> //.
  by rewrite (size0nil sz0).
have [din ->] := draws_from_butlast npos E; have [eq pe] := shuf_last_index din.
exists (rev (shuf (@last_pick nat) (iota 0 (size x)) (rcons ds 0))); split.
- by rewrite perm_rev.
- by rewrite eq map_rev.
- have := draws_size din; rewrite size_rcons size_cat => <-. by [].
Qed.
End Perm.

(* ---- uniformity at the level of the model functions (duplicate-free input) ---- *)
Section Uniform.
Variable T : eqType.
Implicit Type l : seq T.

Definition out (r : result (seq T * tape)) : seq T := if r is Ok yt then yt.1 else [::].

Theorem permute_uniform l : uniq l ->
  perm_eq [seq out (permute l d) | d <- draws (size l)] (permutations l).
Proof.
move=> Ul.
have -> : [seq out (permute l d) | d <- draws (size l)] = [seq shuf (@fy_pick T) l d | d <- draws (size l)].
  by apply/eq_in_map => d din; rewrite /permute -{1}[d]cats0 (draws_from_ok _ din).
exact: fy_uniform.
Qed.

Theorem sample_all_uniform l : uniq l ->
  perm_eq [seq out (sample_all l d) | d <- draws (size l)] (permutations l).
Proof.
move=> Ul.
have -> : [seq out (sample_all l d) | d <- draws (size l)] = [seq shuf (@last_pick T) l d | d <- draws (size l)].
  by apply/eq_in_map => d din; rewrite /sample_all -{1}[d]cats0 (draws_from_ok _ din).
exact: last_uniform.
Qed.
End Uniform.

(* draws_from succeeds on any prefix of answers within their bounds *)
Lemma draws_from_prefix n k ds t' : size ds = k -> (forall i, i < k -> nth 0 ds i < n - i) ->
  draws_from n k (ds ++ t') = Ok (ds, t').
Proof.
elim: k n ds => [|k IH] n ds; first by move/size0nil => ->.
case: ds => // j ds [sz] bd /=.
have -> : j < n by have := bd 0 (ltn0Sn k); rewrite subn0.
rewrite /= IH //= => i ik; have := bd i.+1; rewrite ltnS => /(_ ik) /=.
by rewrite -subn1 -subnDA add1n.
Qed.

(* partial shuffles (permute_incidence_fixed_sums draws two rows): the picks are distinct members of the list *)
Section Prefix.
Variable T : eqType.
Variable pick : T -> seq T -> nat -> T * seq T.
Hypothesis pick_perm : forall x0 l j, j < size l -> perm_eq ((pick x0 l j).1 :: (pick x0 l j).2) l.

Lemma shuf_prefix_perm : forall ds l, (forall i, i < size ds -> nth 0 ds i < size l - i) -> size ds <= size l ->
  exists rest, perm_eq (shuf pick l ds ++ rest) l.
Proof.
elim=> [|d ds IH] l bd sz; first by exists l.
case: l bd sz => // x xs bd sz /=.
have dlt : d < size (x :: xs) by have := bd 0 (ltn0Sn _); rewrite subn0.
have pp := pick_perm x dlt.
have szr : size (pick x (x :: xs) d).2 = size xs by have := perm_size pp => /= -[].
have bd' : forall i, i < size ds -> nth 0 ds i < size (pick x (x :: xs) d).2 - i.
  move=> i ilt; have := bd i.+1; rewrite /= ltnS => /(_ ilt); by rewrite szr subSS.
have sz' : size ds <= size (pick x (x :: xs) d).2 by rewrite szr.
have [rest pr] := IH _ bd' sz'.
exists rest; apply: perm_trans pp; by rewrite /= perm_cons.
Qed.
End Prefix.

Lemma two_rows_distinct n t ds t' s0 s1 :
  draws_from n 2 t = Ok (ds, t') -> shuf (@last_pick nat) (iota 0 n) ds = [:: s0; s1] ->
  [/\ s0 != s1, s0 < n & s1 < n].
Proof.
move=> /draws_fromP [sz _ bd] E.
have bd1 : forall i, i < size ds -> nth 0 ds i < size (iota 0 n) - i.
  by move=> i ilt; rewrite size_iota; apply: bd; rewrite -sz.
have sz1 : size ds <= size (iota 0 n).
  rewrite size_iota sz; have b0 := bd 0 isT; have b1 := bd 1 isT.
  by case: n b0 b1 {bd bd1 E} => [|[|n]] //=; rewrite ?subn0 ?subn1.
have [rest pr] := @shuf_prefix_perm nat_eqType (@last_pick nat) (@last_pick_perm _) ds (iota 0 n) bd1 sz1.
move: pr; rewrite E /= => pr.
have U : uniq [:: s0, s1 & rest] by rewrite (perm_uniq pr) iota_uniq.
have m0 : s0 \in iota 0 n by rewrite -(perm_mem pr) mem_head.
have m1 : s1 \in iota 0 n by rewrite -(perm_mem pr) !inE eqxx orbT.
move: U m0 m1; rewrite /= !inE negb_or mem_iota add0n mem_iota add0n => /andP [/andP [ne _] _] /= a b.
by split.
Qed.

(* stdlib-flavoured restatements used by Proofs/IncidenceProofs.v *)
Lemma seq_iota' a n : List.seq a n = iota a n.
Proof. by elim: n a => [|n IH] a //=; rewrite IH. Qed.

Lemma two_rows_distinct_std n t ds t' s0 s1 :
  draws_from n 2 t = Ok (ds, t') -> shuf (@last_pick nat) (List.seq 0 n) ds = (s0 :: s1 :: nil)%list ->
  s0 <> s1 /\ (s0 < n)%coq_nat /\ (s1 < n)%coq_nat.
Proof.
rewrite seq_iota' => H E; have [ne a b] := two_rows_distinct H E.
split; first by apply/eqP.
by split; apply/ltP.
Qed.

Lemma mem_In (z : nat) (s : seq nat) : z \in s -> List.In z s.
Proof. by elim: s => // c s IH; rewrite inE => /orP [/eqP ->|/IH H]; [left|right]. Qed.

Lemma choice_in (x0 : nat) (l : seq nat) t y t' : choice x0 l t = Ok (y, t') -> List.In y l.
Proof.
rewrite /choice; case: l => // a l.
case E: (draw _ t) => [[b t1]|] //= [<- _].
have blt : b < size (a :: l).
  by move: E; rewrite /draw; case: t => // c t; case: ifP => // clt [<- _].
by apply: (@mem_In _ (a :: l)); rewrite mem_nth.
Qed.

(* random.shuffle keeps the length and introduces no new element (stdlib-flavoured, for Proofs/ShiftProofs.v) *)
Lemma pyshuffle_inv (rr : seq nat) t rr' t' : pyshuffle rr t = Ok (rr', t') ->
  length rr' = length rr /\ forall i, List.In i rr' -> List.In i rr.
Proof.
move=> /(pyshuffle_is_rearrangement 0) [sg [psg -> _]]; split.
  by change (size [seq nth 0 rr i | i <- sg] = size rr); rewrite size_map (perm_size psg) size_iota.
move=> i /(@List.in_map_iff) [j [<- jin]].
apply: mem_In; apply: mem_nth.
have : j \in sg by elim: (sg) jin => // a s IH /= [->|/IH H]; rewrite inE ?eqxx // H orbT.
by rewrite (perm_mem psg) mem_iota add0n.
Qed.
