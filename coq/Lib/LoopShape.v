(* G9: the repetition loops of the Monte-Carlo tests, as a tiny imperative language with a proved-sound shape checker.

   The translator (harness/translate/loops.py) reads a `for i in range(reps)` loop (or a list comprehension over
   range(reps)) from the current source text and turns every statement of its body into one [stmt]; it understands
   nothing else.  What the loop COMPUTES is decided here: [exec] is the semantics of the body, [loop] runs it n times,
   [shape_ok] is a boolean check on the body, and [loop_spec] proves that a body passing the check, for every number of
   repetitions, every statistic, every reference value and every starting state, consumes exactly one rearrangement per
   repetition, stores exactly the statistic of the i-th rearrangement at position i, and adds to each counter the number
   of repetitions whose statistic compares as stated with the reference value.  These are the quantities the models'
   loops (core_loop / core_hits / one_hits / perm_loop / pwg_reps ...) return. *)
From Coq Require Import List Arith QArith Bool Lia.
Import ListNotations.
Local Open Scope nat_scope.

Inductive cmp := CGe | CLe | CGt | CLt.

Definition cmpb (o : cmp) (v r : Q) : bool :=
  match o with
  | CGe => Qle_bool r v
  | CLe => Qle_bool v r
  | CGt => negb (Qle_bool v r)
  | CLt => negb (Qle_bool r v)
  end.

Definition b2n (b : bool) : nat := if b then 1%nat else 0%nat.

(* StatNow: the statistic evaluated on the CURRENT rearrangement; Scratch: the scratch variable (tv, tst) *)
Inductive expr := StatNow | Scratch.

Inductive stmt :=
| SDraw                                   (* a statement that takes the next rearrangement from the generator *)
| SPure                                   (* assignment of a draw-free, statistic-free expression to a local name *)
| SBind                                   (* scratch = statistic(current rearrangement) *)
| SStore (e : expr)                       (* dist[i] = e   /   dist.append(e)   /   the element of a comprehension *)
| SCount (c : nat) (e : expr) (o : cmp).  (* counter_c += (e o ref)   /   if e o ref: counter_c += 1 *)

Record st := mk { draws : nat; scratch : option Q; dist : list Q; cnt : nat -> nat }.

Definition upd (f : nat -> nat) (c v : nat) : nat -> nat := fun k => if Nat.eqb k c then v else f k.

Section Sem.
  Variable value : nat -> Q.     (* value d = the statistic of the rearrangement in force after d draws *)
  Variable ref : Q.              (* the observed / reference value *)

  Definition ev (s : st) (e : expr) : option Q :=
    match e with StatNow => Some (value (draws s)) | Scratch => scratch s end.

  Fixpoint exec (b : list stmt) (s : st) : option st :=
    match b with
    | [] => Some s
    | SDraw :: b' => exec b' (mk (S (draws s)) (scratch s) (dist s) (cnt s))
    | SPure :: b' => exec b' s
    | SBind :: b' => exec b' (mk (draws s) (Some (value (draws s))) (dist s) (cnt s))
    | SStore e :: b' =>
        match ev s e with
        | None => None
        | Some v => exec b' (mk (draws s) (scratch s) (dist s ++ [v]) (cnt s))
        end
    | SCount c e o :: b' =>
        match ev s e with
        | None => None
        | Some v => exec b' (mk (draws s) (scratch s) (dist s) (upd (cnt s) c (cnt s c + b2n (cmpb o v ref))))
        end
    end.

  Fixpoint loop (b : list stmt) (n : nat) (s : st) : option st :=
    match n with
    | O => Some s
    | S n' => match exec b s with None => None | Some s1 => loop b n' s1 end
    end.

  (* ---------------- the checker ---------------- *)
  Definition expr_ok (bound : bool) (e : expr) : bool :=
    match e with StatNow => true | Scratch => bound end.

  (* the part of the body after the draw: no further draw, the scratch variable is read only after it was bound in
     this repetition *)
  Fixpoint rest_ok (bound : bool) (b : list stmt) : bool :=
    match b with
    | [] => true
    | SDraw :: _ => false
    | SPure :: b' => rest_ok bound b'
    | SBind :: b' => rest_ok true b'
    | SStore e :: b' => expr_ok bound e && rest_ok bound b'
    | SCount _ e _ :: b' => expr_ok bound e && rest_ok bound b'
    end.

  Fixpoint stores (b : list stmt) : nat :=
    match b with
    | [] => 0
    | SStore _ :: b' => S (stores b')
    | _ :: b' => stores b'
    end.

  Fixpoint counts (b : list stmt) : list (nat * cmp) :=
    match b with
    | [] => []
    | SCount c _ o :: b' => (c, o) :: counts b'
    | _ :: b' => counts b'
    end.

  Fixpoint split_draw (b : list stmt) : option (list stmt) :=
    match b with
    | SPure :: b' => split_draw b'
    | SDraw :: b' => Some b'
    | _ => None
    end.

  Fixpoint nodupb (l : list nat) : bool :=
    match l with
    | [] => true
    | x :: l' => negb (existsb (Nat.eqb x) l') && nodupb l'
    end.

  Definition shape_ok (b : list stmt) : bool :=
    match split_draw b with
    | None => false
    | Some r => rest_ok false r && Nat.leb (stores r) 1 && nodupb (map fst (counts r))
    end.

  Definition rest_of (b : list stmt) : list stmt := match split_draw b with Some r => r | None => [] end.

  (* ---------------- what a repetition does ---------------- *)
  Definition bump (f : nat -> nat) (cs : list (nat * cmp)) (v : Q) : nat -> nat :=
    fold_left (fun g co => upd g (fst co) (g (fst co) + b2n (cmpb (snd co) v ref))) cs f.

  Lemma rest_exec : forall r bound s,
      rest_ok bound r = true ->
      (bound = true -> scratch s = Some (value (draws s))) ->
      exists s', exec r s = Some s' /\ draws s' = draws s /\
                 dist s' = dist s ++ repeat (value (draws s)) (stores r) /\
                 cnt s' = bump (cnt s) (counts r) (value (draws s)).
  Proof.
    induction r as [|x r IH]; intros bound s Hok Hb; cbn [exec rest_ok stores counts].
    - exists s. cbn. rewrite app_nil_r. repeat split; reflexivity.
    - destruct x as [| | |e|c e o]; cbn [rest_ok] in Hok.
      + discriminate.
      + destruct (IH bound s Hok Hb) as [s' H]. exists s'. exact H.
      + destruct (IH true (mk (draws s) (Some (value (draws s))) (dist s) (cnt s)) Hok (fun _ => eq_refl)) as [s' [H1 [H2 [H3 H4]]]].
        exists s'. cbn in *. repeat split; assumption.
      + apply andb_true_iff in Hok. destruct Hok as [He Hok].
        assert (Hv : ev s e = Some (value (draws s))).
        { destruct e; cbn in *; [reflexivity | apply Hb; exact He]. }
        rewrite Hv.
        destruct (IH bound (mk (draws s) (scratch s) (dist s ++ [value (draws s)]) (cnt s)) Hok Hb) as [s' [H1 [H2 [H3 H4]]]].
        exists s'. cbn in *. repeat split; try assumption.
        rewrite H3, <- app_assoc. reflexivity.
      + apply andb_true_iff in Hok. destruct Hok as [He Hok].
        assert (Hv : ev s e = Some (value (draws s))).
        { destruct e; cbn in *; [reflexivity | apply Hb; exact He]. }
        rewrite Hv.
        destruct (IH bound (mk (draws s) (scratch s) (dist s) (upd (cnt s) c (cnt s c + b2n (cmpb o (value (draws s)) ref)))) Hok Hb)
          as [s' [H1 [H2 [H3 H4]]]].
        exists s'. cbn in *. repeat split; assumption.
  Qed.

  Lemma split_exec : forall b r s, split_draw b = Some r ->
      exec b s = exec r (mk (S (draws s)) (scratch s) (dist s) (cnt s)).
  Proof.
    induction b as [|x b IH]; intros r s H; cbn in H; [discriminate|].
    destruct x; try discriminate.
    - inversion H; subst. reflexivity.
    - cbn [exec]. apply IH. exact H.
  Qed.

  Definition vals (d0 n : nat) : list Q := map (fun i => value (d0 + i)) (seq 1 n).

  Lemma vals_S d0 n : vals d0 (S n) = value (S d0) :: vals (S d0) n.
  Proof.
    unfold vals. cbn [seq map]. f_equal; [f_equal; lia|].
    rewrite <- seq_shift, map_map. apply map_ext. intros a. f_equal. lia.
  Qed.

  Fixpoint bump_all (f : nat -> nat) (cs : list (nat * cmp)) (vs : list Q) : nat -> nat :=
    match vs with [] => f | v :: vs' => bump_all (bump f cs v) cs vs' end.

  Lemma body_loop : forall b r, split_draw b = Some r -> rest_ok false r = true ->
      forall n s, exists s', loop b n s = Some s' /\ draws s' = draws s + n /\
                 dist s' = dist s ++ flat_map (fun v => repeat v (stores r)) (vals (draws s) n) /\
                 cnt s' = bump_all (cnt s) (counts r) (vals (draws s) n).
  Proof.
    intros b r Hs Hr. induction n as [|n IH]; intros s.
    - exists s. cbn. rewrite app_nil_r. repeat split; try reflexivity; lia.
    - cbn [loop]. rewrite (split_exec b r s Hs).
      destruct (rest_exec r false (mk (S (draws s)) (scratch s) (dist s) (cnt s)) Hr (fun H => False_ind _ (diff_false_true H)))
        as [s1 [E1 [D1 [L1 C1]]]].
      rewrite E1. destruct (IH s1) as [s' [E2 [D2 [L2 C2]]]].
      exists s'. cbn in D1, L1, C1. rewrite E2. split; [reflexivity|]. split; [lia|]. split.
      + rewrite L2, L1, D1, vals_S. cbn [flat_map]. rewrite <- app_assoc. reflexivity.
      + rewrite C2, C1, D1, vals_S. reflexivity.
  Qed.

  (* ---------------- counters as tail counts ---------------- *)
  Definition count_cmp (o : cmp) (vs : list Q) : nat := length (filter (fun v => cmpb o v ref) vs).

  Lemma bump_other : forall cs f v k, ~ In k (map fst cs) -> bump f cs v k = f k.
  Proof.
    induction cs as [|[c o] cs IH]; intros f v k Hk; cbn in *; [reflexivity|].
    unfold bump in *. cbn [fold_left fst snd]. rewrite IH by tauto.
    unfold upd. destruct (Nat.eqb_spec k c); [subst; tauto | reflexivity].
  Qed.

  Lemma existsb_in : forall l x, existsb (Nat.eqb x) l = false -> ~ In x l.
  Proof.
    induction l as [|y l IH]; intros x H; cbn in *; [tauto|].
    apply orb_false_iff in H. destruct H as [H1 H2]. intros [E|E].
    - subst. rewrite Nat.eqb_refl in H1. discriminate.
    - exact (IH x H2 E).
  Qed.

  Lemma bump_in : forall cs f v c o, nodupb (map fst cs) = true -> In (c, o) cs ->
      bump f cs v c = f c + b2n (cmpb o v ref).
  Proof.
    induction cs as [|[c0 o0] cs IH]; intros f v c o Hn Hin; cbn in *; [tauto|].
    apply andb_true_iff in Hn. destruct Hn as [Hx Hn]. apply negb_true_iff in Hx.
    unfold bump. cbn [fold_left fst snd]. fold (bump (upd f c0 (f c0 + b2n (cmpb o0 v ref))) cs v).
    destruct Hin as [E|Hin].
    - inversion E; subst. rewrite bump_other by (apply existsb_in; exact Hx).
      unfold upd. rewrite Nat.eqb_refl. reflexivity.
    - rewrite (IH _ v c o Hn Hin). unfold upd.
      destruct (Nat.eqb_spec c c0); [|reflexivity].
      subst. exfalso. apply (existsb_in _ _ Hx). apply in_map_iff. exists (c0, o). split; [reflexivity|exact Hin].
  Qed.

  Lemma bump_all_in : forall vs cs f c o, nodupb (map fst cs) = true -> In (c, o) cs ->
      bump_all f cs vs c = f c + count_cmp o vs.
  Proof.
    induction vs as [|v vs IH]; intros cs f c o Hn Hin; cbn [bump_all].
    - unfold count_cmp. cbn. lia.
    - rewrite (IH cs _ c o Hn Hin), (bump_in cs f v c o Hn Hin).
      unfold count_cmp. cbn [filter]. destruct (cmpb o v ref); cbn [b2n length]; lia.
  Qed.

  Lemma bump_all_other : forall vs cs f k, ~ In k (map fst cs) -> bump_all f cs vs k = f k.
  Proof.
    induction vs as [|v vs IH]; intros cs f k Hk; cbn [bump_all]; [reflexivity|].
    rewrite IH by exact Hk. apply bump_other. exact Hk.
  Qed.

  Lemma flat_one : forall (vs : list Q), flat_map (fun v => repeat v 1) vs = vs.
  Proof. induction vs as [|v vs IH]; [reflexivity|]. cbn [flat_map repeat app]. f_equal. exact IH. Qed.

  Lemma flat_zero : forall (vs : list Q), flat_map (fun v => repeat v 0) vs = [].
  Proof. induction vs as [|v vs IH]; [reflexivity|]. cbn [flat_map repeat app]. exact IH. Qed.

  (* The specification of a well-shaped repetition loop, for every number of repetitions and every starting state:
     it terminates normally, takes exactly n rearrangements, stores the statistic of the i-th new rearrangement at
     position i (when the body stores at all), adds to each counter the number of the n new statistics that compare as
     stated with the reference value, and touches no other counter. *)
  Theorem loop_spec : forall b, shape_ok b = true ->
      forall n s, exists s',
        loop b n s = Some s' /\
        draws s' = draws s + n /\
        dist s' = dist s ++ (if Nat.eqb (stores (rest_of b)) 1 then vals (draws s) n else []) /\
        (forall c o, In (c, o) (counts (rest_of b)) -> cnt s' c = cnt s c + count_cmp o (vals (draws s) n)) /\
        (forall k, ~ In k (map fst (counts (rest_of b))) -> cnt s' k = cnt s k).
  Proof.
    intros b Hok n s. unfold shape_ok, rest_of in *.
    destruct (split_draw b) as [r|] eqn:Hs; [|discriminate].
    apply andb_true_iff in Hok. destruct Hok as [Hok Hnd]. apply andb_true_iff in Hok. destruct Hok as [Hr Hst].
    destruct (body_loop b r Hs Hr n s) as [s' [E [D [L C]]]].
    exists s'. split; [exact E|]. split; [exact D|]. split; [|split].
    - rewrite L. f_equal. apply Nat.leb_le in Hst.
      destruct (stores r) as [|[|k]]; cbn [Nat.eqb]; [apply flat_zero | apply flat_one | lia].
    - intros c o Hin. rewrite C. apply bump_all_in; assumption.
    - intros k Hk. rewrite C. apply bump_all_other. exact Hk.
  Qed.
End Sem.

(* non-vacuity: the body of two_sample_core's keep_dist=False loop passes the check, and a body that evaluates the
   statistic before taking the rearrangement, or counts a buffer only every other time, does not *)
Example shape_two_sample_core_nodist :
  shape_ok [SDraw; SPure; SCount 0 StatNow CGe; SCount 1 StatNow CLe] = true.
Proof. reflexivity. Qed.
Example shape_rejects_stale : shape_ok [SBind; SDraw; SCount 0 Scratch CGe] = false.
Proof. reflexivity. Qed.
Example shape_rejects_two_draws : shape_ok [SDraw; SDraw; SStore StatNow] = false.
Proof. reflexivity. Qed.
