(* Shared definitions: results, exceptions, alternatives, Q helpers. *)
From Coq Require Export List ZArith QArith Qabs Bool Lia.
Export ListNotations.

Inductive exn := ValueError | TypeError | NameError | AssertionError | IndexError
               | KeyError | OutOfTape.
Inductive result (A : Type) := Ok (a : A) | Err (e : exn).
Arguments Ok {A} a. Arguments Err {A} e.

Definition exn_eqb (a b : exn) : bool :=
  match a, b with
  | ValueError, ValueError | TypeError, TypeError | NameError, NameError
  | AssertionError, AssertionError | IndexError, IndexError | KeyError, KeyError
  | OutOfTape, OutOfTape => true
  | _, _ => false
  end.

Definition bind {A B} (r : result A) (f : A -> result B) : result B :=
  match r with Ok a => f a | Err e => Err e end.

Inductive alt := Greater | Less | TwoSided.

(* failing indices of a boolean check over a list of cases: the only thing the
   correspondence files print *)
Fixpoint failing_from {A} (chk : A -> bool) (i : nat) (l : list A) : list nat :=
  match l with
  | [] => []
  | a :: t => if chk a then failing_from chk (S i) t else i :: failing_from chk (S i) t
  end.
Definition failing {A} (chk : A -> bool) (l : list A) := failing_from chk 0 l.

Fixpoint list_eqb {A} (eqb : A -> A -> bool) (a b : list A) : bool :=
  match a, b with
  | [], [] => true
  | x :: a', y :: b' => eqb x y && list_eqb eqb a' b'
  | _, _ => false
  end.

Lemma list_eqb_eq {A} (eqb : A -> A -> bool)
  (H : forall x y, eqb x y = true <-> x = y) a b : list_eqb eqb a b = true <-> a = b.
Proof.
  revert b; induction a as [|x a IH]; intros [|y b]; simpl; split; try congruence; try reflexivity.
  - intros E. apply andb_true_iff in E as [E1 E2]. apply H in E1. apply IH in E2. congruence.
  - intros E. inversion E; subst. apply andb_true_iff; split; [apply H|apply IH]; reflexivity.
Qed.

Definition Qmin (a b : Q) : Q := if Qle_bool a b then a else b.
Definition Qmax (a b : Q) : Q := if Qle_bool a b then b else a.

(* comparison helpers for the correspondence files *)
Definition close (tol : Q) (a b : Q) : bool := Qle_bool (Qabs (a - b)) tol.
Definition res_eqb {A} (eqb : A -> A -> bool) (a b : result A) : bool :=
  match a, b with
  | Ok u, Ok v => eqb u v
  | Err e, Err f => exn_eqb e f
  | _, _ => false
  end.
Definition res_close (tol : Q) (m i : result Q) : bool := res_eqb (close tol) m i.
Definition Qeqb (a b : Q) : bool := Qeq_bool a b.
