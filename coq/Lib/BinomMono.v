(* L5: the binomial upper tail is nondecreasing in p, the lower tail nonincreasing (cross-multiplied over a
   common denominator D = a + b = c + d), for all n and x.  MathComp style. *)
From Coq Require Import ZArith.
From PV Require Import Model.TailsZ.
From mathcomp Require Import all_ssreflect zify.
From PV Require Import Lib.Tails Lib.Binom.
Local Open Scope nat_scope.
Set Implicit Arguments. Unset Strict Implicit. Unset Printing Implicit Defensive.

(* upper tail as a big sum: Ub n x a b = sum_{x <= k <= n} C(n,k) a^k b^(n-k) *)
Definition Ub (n x a b : nat) : nat := \sum_(x <= k < n.+1) 'C(n, k) * a ^ k * b ^ (n - k).

Lemma upper_wbinom n a b x : upper (wbinom n a b) x = Ub n x a b.
Proof.
rewrite /upper /wbinom /Ub -map_drop drop_iota add0n sumnE big_map.
by rewrite /index_iota.
Qed.

Lemma Ub0 n a b : Ub n 0 a b = (a + b) ^ n.
Proof. by rewrite -upper_wbinom upper0 wbinom_total. Qed.

Lemma Ub_big n x a b : n < x -> Ub n x a b = 0.
Proof. by move=> nx; rewrite /Ub big_geq. Qed.

(* Pascal: U(n+1, x+1) = a U(n, x) + b U(n, x+1) *)
Lemma Ub_rec n x a b : Ub n.+1 x.+1 a b = a * Ub n x a b + b * Ub n x.+1 a b.
Proof.
rewrite /Ub.
case: (leqP x n) => xn; last first.
  by rewrite !big_geq ?muln0 // ltnW // ltnS ltnW.
(* left: sum_{k=x+1}^{n+1} (C(n,k) + C(n,k-1)) a^k b^(n+1-k) *)
rewrite big_add1 /=.
have -> : \sum_(x <= i < n.+1) 'C(n.+1, i.+1) * a ^ i.+1 * b ^ (n.+1 - i.+1) =
          \sum_(x <= i < n.+1) (a * ('C(n, i) * a ^ i * b ^ (n - i)) + b * ('C(n, i.+1) * a ^ i.+1 * b ^ (n - i.+1))).
  apply: eq_big_nat => i /andP [xi ilt].
  rewrite binS subSS expnS.
  case: (ltnP i n) => [lt|ge].
    rewrite -(subnSK lt) [b ^ (n - i.+1).+1]expnS.
    move: ('C(n, i)) ('C(n, i.+1)) (a ^ i) (b ^ (n - i.+1)) => C1 C2 Ai Bi. nia.
  have -> : i = n by apply/eqP; rewrite eqn_leq ge andbT -ltnS.
  rewrite bin_small // subnn expn0. move: ('C(n, n)) (a ^ n) => C1 Ai. nia.
rewrite big_split /= -!big_distrr /=; congr (_ + _); congr (_ * _).
rewrite [in RHS]big_add1 /=.
rewrite (big_nat_recr n) //= bin_small // !mul0n addn0. by [].
Qed.

Lemma Ub_anti n x a b : Ub n x.+1 a b <= Ub n x a b.
Proof. by rewrite -!upper_wbinom; exact: upper_anti. Qed.

(* monotone in p = a/D: a + b = c + d, a <= c  ->  U(a,b) <= U(c,d) *)
Theorem Ub_mono_p n : forall x a b c d, a + b = c + d -> a <= c -> Ub n x a b <= Ub n x c d.
Proof.
elim: n => [|n IH] x a b c d eD ac.
  case: x => [|x]; first by rewrite !Ub0 eD.
  by rewrite !Ub_big.
case: x => [|x]; first by rewrite !Ub0 eD.
rewrite !Ub_rec.
have h1 := IH x a b c d eD ac; have h2 := IH x.+1 a b c d eD ac.
have h3 := Ub_anti n x c d.
move: (Ub n x a b) (Ub n x.+1 a b) (Ub n x c d) (Ub n x.+1 c d) h1 h2 h3 => u0 u1 v0 v1 h1 h2 h3.
nia.
Qed.

(* lower tail: L = total - U(x+1); hence antitone in p *)
Lemma lower_wbinom n a b x : lower (wbinom n a b) x + Ub n x.+1 a b = (a + b) ^ n.
Proof. by rewrite -upper_wbinom lower_upper wbinom_total. Qed.

Theorem lower_anti_p n x a b c d : a + b = c + d -> a <= c ->
  lower (wbinom n c d) x <= lower (wbinom n a b) x.
Proof.
move=> eD ac; have := lower_wbinom n a b x; have := lower_wbinom n c d x.
have := Ub_mono_p n x.+1 eD ac; rewrite eD. lia.
Qed.

(* rescaling numerator and denominator of p does not change the tail: U(ka, kb) = k^n U(a, b) *)
Lemma Ub_scale n x a b k : Ub n x (k * a) (k * b) = k ^ n * Ub n x a b.
Proof.
rewrite /Ub big_distrr /=; apply: eq_big_nat => i /andP [_ ilt].
have -> : k ^ n = k ^ i * k ^ (n - i) by rewrite -expnD subnKC.
rewrite !expnMn.
move: ('C(n, i)) (a ^ i) (b ^ (n - i)) (k ^ i) (k ^ (n - i)) => C1 Ai Bi Ki Kj. nia.
Qed.
