(* Uniformity of the selection shuffles of Model/Prng.v (L3): over the product space of answers,
   every shuffle produces each permutation exactly once.  MathComp style. *)
From PV Require Import Lib.Base Model.Prng.
From mathcomp Require Import all_ssreflect.
Local Open Scope nat_scope.
Set Implicit Arguments. Unset Strict Implicit. Unset Printing Implicit Defensive.

(* the answer space of one shuffle of n items: j_0 < n, j_1 < n-1, ..., j_{n-1} < 1 *)
Fixpoint draws (n : nat) : seq (seq nat) :=
  match n with
  | 0 => [:: [::]]
  | n'.+1 => [seq j :: d | j <- iota 0 n'.+1, d <- draws n']
  end.

Lemma drawsS n : draws n.+1 = [seq j :: d | j <- iota 0 n.+1, d <- draws n].
Proof. by []. Qed.
Lemma size_draws n : size (draws n) = n`!.
Proof. elim: n => // n IH. by rewrite drawsS size_allpairs size_iota IH factS. Qed.
Lemma drawsP n x : x \in draws n.+1 ->
  exists j d, [/\ x = j :: d, j < n.+1 & d \in draws n].
Proof.
rewrite drawsS; case/allpairsP => -[j d] [jin din ->].
exists j, d; split => //; by move: jin; rewrite [(j, d).1]/= mem_iota add0n.
Qed.
Lemma draws_uniq n : uniq (draws n).
Proof.
elim: n => // n IHn; rewrite drawsS; apply: allpairs_uniq => //.
- exact: iota_uniq.
- by move=> [a b] [c d] _ _ /= [-> ->].
Qed.
Lemma draws_size n d : d \in draws n -> size d = n.
Proof.
elim: n d => [|n IH] d; first by rewrite inE => /eqP ->.
by case/drawsP => j [d' [-> _ /IH /= ->]].
Qed.

Section SelShuffle.
Variable T : eqType.
Variable pick : T -> seq T -> nat -> T * seq T.
Hypothesis pick_fst : forall x0 l j, j < size l -> (pick x0 l j).1 = nth x0 l j.
Hypothesis pick_perm : forall x0 l j, j < size l -> perm_eq ((pick x0 l j).1 :: (pick x0 l j).2) l.

Lemma pick_size x0 l j : j < size l -> size (pick x0 l j).2 = (size l).-1.
Proof. by move=> /(pick_perm x0) /perm_size /= <-. Qed.

Lemma shuf_perm n : forall l d, size l = n -> d \in draws n -> perm_eq (shuf pick l d) l.
Proof.
elim: n => [|n IH] l d szl.
  by rewrite /= inE => /eqP ->; move/eqP: szl; rewrite size_eq0 => /eqP ->.
case/drawsP => j [d' [-> jlt' d'in]].
case: l szl => // x xs szl /=.
have jlt : j < size (x :: xs) by rewrite szl.
apply: perm_trans (pick_perm x jlt); rewrite perm_cons; apply: IH => //.
by rewrite pick_size // szl.
Qed.

Lemma shuf_inj n : forall l d1 d2, uniq l -> size l = n ->
  d1 \in draws n -> d2 \in draws n -> shuf pick l d1 = shuf pick l d2 -> d1 = d2.
Proof.
elim: n => [|n IH] l d1 d2 Ul szl.
  by rewrite /= !inE => /eqP -> /eqP ->.
case/drawsP => j1 [e1 [-> j1lt' e1in]].
case/drawsP => j2 [e2 [-> j2lt' e2in]].
case: l Ul szl => // x xs Ul szl /= [eqh eqt].
have j1lt : j1 < size (x :: xs) by rewrite szl.
have j2lt : j2 < size (x :: xs) by rewrite szl.
have ej : j1 = j2.
  move: eqh; rewrite !pick_fst // => /eqP; rewrite nth_uniq // => /eqP. by [].
subst j2; congr (_ :: _).
have U2 : uniq (pick x (x :: xs) j1).2.
  by have := pick_perm x j1lt => /perm_uniq; rewrite Ul /=; case/andP.
apply: (IH (pick x (x :: xs) j1).2) => //; by rewrite pick_size // szl.
Qed.

Theorem shuf_uniform l : uniq l ->
  perm_eq [seq shuf pick l d | d <- draws (size l)] (permutations l).
Proof.
move=> Ul.
have Um : uniq [seq shuf pick l d | d <- draws (size l)].
  rewrite map_inj_in_uniq ?draws_uniq // => d1 d2 d1in d2in; exact: (@shuf_inj (size l) l).
have sub : {subset [seq shuf pick l d | d <- draws (size l)] <= permutations l}.
  by move=> t /mapP [d din ->]; rewrite mem_permutations; apply: (@shuf_perm (size l)).
have szle : size (permutations l) <= size [seq shuf pick l d | d <- draws (size l)].
  by rewrite size_map size_draws size_permutations.
have [_ eqm] := uniq_min_size Um sub szle.
apply: uniq_perm => //; exact: permutations_uniq.
Qed.
End SelShuffle.

(* ---- the two pick functions of the model ---- *)
Section Picks.
Variable T : eqType.
Implicit Types (l s : seq T) (x y : T).

Lemma perm_set_nth x0 s j y : j < size s -> perm_eq (nth x0 s j :: set_nth x0 s j y) (y :: s).
Proof.
elim: s j => // a s IH [|j] /= jlt; first by rewrite (perm_catCA [:: a] [:: y]).
rewrite (perm_catCA [:: nth x0 s j] [:: a]) /= perm_sym.
rewrite (perm_catCA [:: y] [:: a]) /= perm_cons perm_sym; exact: IH.
Qed.

Lemma fy_pick_fst x0 l j : j < size l -> (fy_pick x0 l j).1 = nth x0 l j.
Proof. by case: l => // x xs; case: j. Qed.
Lemma fy_pick_perm x0 l j : j < size l -> perm_eq ((fy_pick x0 l j).1 :: (fy_pick x0 l j).2) l.
Proof. case: l => // x xs; case: j => [|j] //= jlt; exact: perm_set_nth. Qed.

Lemma last_pick_fst x0 l j : j < size l -> (last_pick x0 l j).1 = nth x0 l j.
Proof.
rewrite /last_pick size_take; case: l => // x xs /= jlt.
rewrite ltnS leqnn; case: ltnP => jb /=; first by rewrite nth_take.
have -> : j = size xs by apply/eqP; rewrite eqn_leq jb -ltnS jlt.
by rewrite (last_nth x0) /=.
Qed.
Lemma last_pick_perm x0 l j : j < size l -> perm_eq ((last_pick x0 l j).1 :: (last_pick x0 l j).2) l.
Proof.
case: (lastP l) => // body lst; rewrite size_rcons => jlt.
rewrite /last_pick size_rcons /= -cats1 take_size_cat // last_cat /=.
case: ltnP => jb /=.
- apply: perm_trans (perm_set_nth x0 lst jb) _; by rewrite cats1 perm_sym perm_rcons.
- by rewrite cats1 perm_sym perm_rcons.
Qed.

(* every permutation exactly once, for duplicate-free input *)
Theorem fy_uniform l : uniq l ->
  perm_eq [seq shuf (@fy_pick T) l d | d <- draws (size l)] (permutations l).
Proof. apply: shuf_uniform; [exact: fy_pick_fst | exact: fy_pick_perm]. Qed.
Theorem last_uniform l : uniq l ->
  perm_eq [seq shuf (@last_pick T) l d | d <- draws (size l)] (permutations l).
Proof. apply: shuf_uniform; [exact: last_pick_fst | exact: last_pick_perm]. Qed.
End Picks.
