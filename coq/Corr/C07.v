From PV Require Import Lib.Base Model.Npc.
Open Scope Q_scope.

Inductive case :=
  | NpcCase (p : list Q) (distr : list (list Q)) (c : comb) (plus1 : bool) (impl : result Q)
  | SimCase (table : list (list Q)) (c : comb) (impl : result (Q * list Q)).

Definition tol : Q := 1 # 1000000000000.
Definition pair_close (a b : Q * list Q) : bool :=
  close tol (fst a) (fst b) && list_eqb (close tol) (snd a) (snd b).

Definition check_case (cs : case) : bool :=
  match cs with
  | NpcCase p d c plus1 impl => res_close tol (npc p d c plus1) impl
  | SimCase t c impl => res_eqb pair_close (sim_npc_table t c) impl
  end.
