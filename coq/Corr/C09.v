From PV Require Import Lib.Base Model.Npc Model.Adjust.
Open Scope Q_scope.
Inductive case := FCase (p : list Q) (distr : list (list Q)) (ord : list nat) (c : comb) (plus1 : bool)
                        (impl : result (list Q)).
Definition tol : Q := 1 # 1000000000000.
Definition check_case (cs : case) : bool :=
  match cs with
  | FCase p d ord c plus1 impl =>
      is_sorting_perm p ord && res_eqb (list_eqb (close tol)) (fwer_minp p d ord c plus1) impl
  end.
