From PV Require Import Lib.Base Model.Prng Model.Core Model.Experiment Model.ExperimentAbort.
From PV Require Model.Npc Model.WY.
Open Scope Q_scope.

Definition tol : Q := 1 # 1000000000.
Definition zl_eq := list_eqb Z.eqb.
Definition ql_close := list_eqb (fun a b => close tol a b || Qeq_bool a b).
Definition out_eqb (a b : output) : bool :=
  match a, b with
  | OGroup g, OGroup h => zl_eq g h
  | ONpc p ts ps, ONpc p' ts' ps' => close tol p p' && ql_close ts ts' && ql_close ps ps'
  | OWY a1 r1, OWY a2 r2 => ql_close a1 a2 && ql_close r1 r2
  | _, _ => false
  end.

(* expected: after every operation, the caller's group vector and the returned value; an operation that
   raises ends the history with the exception *)
Inductive expect := Step (g : list Z) (o : output) | Raised (e : exn).

Fixpoint check_run (e : exp) (ops : list op) (exps : list expect) : bool :=
  match ops, exps with
  | [], [] => true
  | o :: os, Step g out :: xs =>
      match step e o with
      | Ok (e', out') => zl_eq (group e') g && out_eqb out' out && check_run e' os xs
      | Err _ => false
      end
  | o :: _, [Raised ex] => match step e o with Err ex' => exn_eqb ex ex' | Ok _ => false end
  | _, _ => false
  end.

Inductive case :=
  | History (e : exp) (ops : list op) (exps : list expect)
  | TestFnCase (f : testfn) (g : list Z) (resp : list (list Q)) (impl : result Q)
  (* a call aborted inside its repetition loop after [j] completed randomizations (Model/ExperimentAbort.v): the assignment the
     implementation left behind, and the answers it consumed (the state's generator holds exactly those: none may be left) *)
  | AbortCase (e : exp) (in_place : bool) (j : nat) (left_behind : list Z).

Definition check_case (c : case) : bool :=
  match c with
  | History e ops exps => check_run e ops exps
  | TestFnCase f g resp impl => res_eqb (fun a b => close tol a b) (eval_test f g resp) impl
  | AbortCase e ip j g' =>
      match abort_step e ip None (gen e) j with
      | Ok e' => zl_eq (group e') g' && (if ip then match gen e' with nil => true | _ => false end else true)
      | Err _ => false
      end
  end.
