From PV Require Import Lib.Base Model.WY.
Open Scope Q_scope.
(* L: the testing order (most significant hypothesis first) used by the implementation: reversed stable sort *)
Inductive case := WCase (ts : list Q) (sims : list (list Q)) (m : wmethod) (alts : list walt)
                        (impl : result (list Q * list Q)).
Definition tol : Q := 1 # 1000000000000.
Definition pair_close (a b : list Q * list Q) : bool :=
  list_eqb (close tol) (fst a) (fst b) && list_eqb (close tol) (snd a) (snd b).
(* the order in which the model tests the hypotheses, recomputed for the textbook spec *)
Definition order_of (ts : list Q) (sims : list (list Q)) (m : wmethod) (alts : list walt) : list nat :=
  let idx := seq 0 (length ts) in
  let alt_of := fun c => nth c alts WBad in
  match m with
  | MinP => let raw := map (fun c => raw_p (alt_of c) (nth c ts 0) (col sims c)) idx in
            rev (sort_by (fun a b => Qle_bool b a) (fun c => nth c raw 0) idx)
  | _ => rev (sort_by Qle_bool (fun c => tr (last alts WBad) (nth c ts 0)) idx)
  end.
Definition uniform_alts (alts : list walt) : bool :=
  match alts with [] => true | a :: t => forallb (fun b => match a, b with WGreater, WGreater | WTwoSided, WTwoSided => true | _, _ => false end) t end.
Definition check_case (c : case) : bool :=
  match c with
  | WCase ts sims m alts impl =>
      res_eqb pair_close (westfall_young_table ts sims m alts) impl
      && match impl with
         | Ok v => if uniform_alts alts then pair_close (wy_spec ts sims m alts (order_of ts sims m alts)) v else true
         | Err _ => true
         end
  end.
