From PV Require Import Lib.Base Model.Prng Model.Core Model.Stratified Model.NoDist Model.NoDistStrat Corr.CoreCases.
Open Scope Q_scope.

Definition zl_eq := list_eqb Z.eqb.
Definition sorted_by (c : list Z) (ord : list nat) : bool :=
  let c' := map (fun i => nth i c 0%Z) ord in
  (fix go (l : list Z) := match l with a :: ((b :: _) as t) => (a <=? b)%Z && go t | _ => true end) c'.

Inductive case :=
  | PwgCase (x : list Q) (g : list Z) (t : tape) (out : list Q) (consumed : nat)
  | RowsCase (m : list (list Q)) (reps : nat) (t : tape) (outs : list (list (list Q))) (consumed : nat)
  | SptCase (g c : list Z) (s : statv) (a : alt) (reps : nat) (plus1 : bool) (t : tape)
            (impl : option (Q * Q * list Q)) (recorded : list (list Z)) (consumed : nat)
  | S2sCase (g c : list Z) (resp : list Q) (ord : list nat) (s : option statv) (a : alt) (reps : nat) (plus1 : bool)
            (t : tape) (p tst : Q) (d : option (list Q)) (recorded : option (list (list Q))) (consumed : nat)
  | BivCase (x : list Q) (g1 g2 : list Z) (reps : nat) (plus1 : bool) (t : tape) (p tst : Q) (d : option (list Q)) (consumed : nat)
  | ArrCase (x : list Q) (g : list Z) (reps : nat) (t : tape) (seen : list (list Q)) (consumed : nat)   (* sim_corr / named stats *)
  | StratPval (a : alt) (tst : Q) (d : list Q) (plus1 : bool) (p : Q)
  | Sptm2Case (g c : list Z) (resp : list Q) (impl : result Q).

(* keep_dist=False runs (d = None) are also compared with the model of the counter loop *)
Definition check_nd (o : result (Q * Q * tape)) (t : tape) (p tst : Q) (d : option (list Q)) (consumed : nat) : bool :=
  match d with
  | None => match o with
            | Ok (mp, mts, t') => rel_close mp p && rel_close mts tst && Nat.eqb (used t t') consumed
            | Err _ => false
            end
  | Some _ => true
  end.

Definition check_case (cs : case) : bool :=
  match cs with
  | PwgCase x g t out consumed =>
      match permute_within_groups 0 x g t with
      | Ok (o, t') => ql_eq o out && Nat.eqb (used t t') consumed | Err _ => false end
  | RowsCase m reps t outs consumed =>
      match rows_chain m reps t with
      | Ok (o, t') => list_eqb (list_eqb ql_eq) o outs && Nat.eqb (used t t') consumed | Err _ => false end
  | SptCase g c s a reps plus1 t impl rec consumed =>
      match spt_callable g c s a reps plus1 t, impl with
      | Ok (None, t'), None => Nat.eqb (used t t') consumed
      | Ok (Some (p, tst, d, ar), t'), Some (ip, itst, idist) =>
          rel_close p ip && rel_close tst itst && ql_close d idist && list_eqb zl_eq ar rec
          && Nat.eqb (used t t') consumed
      | _, _ => false
      end
  | S2sCase g c resp ord s a reps plus1 t p tst d rec consumed =>
      sorted_by c ord &&
      match s with
      | Some sv => check_nd (s2s_callable_nodist g c resp ord sv a reps plus1 t) t p tst d consumed
      | None => true
      end &&
      match (match s with Some sv => s2s_callable g c resp ord sv a reps plus1 t
                        | None => s2s_mean g c resp ord a reps plus1 t end) with
      | Ok (mp, mtst, md, ar, t') =>
          rel_close mp p && rel_close mtst tst && opt_check (ql_close md) d
          && opt_check (fun l => list_eqb ql_eq ar l) rec && Nat.eqb (used t t') consumed
      | Err _ => false
      end
  | BivCase x g1 g2 reps plus1 t p tst d consumed =>
      check_nd (bivariate_k_sample_nodist x g1 g2 reps plus1 t) t p tst d consumed &&
      match bivariate_k_sample x g1 g2 reps plus1 t with
      | Ok (mp, mtst, md, ar, t') =>
          rel_close mp p && rel_close mtst tst && opt_check (ql_close md) d && Nat.eqb (used t t') consumed
      | Err _ => false
      end
  | ArrCase x g reps t seen consumed =>
      match pwg_reps 0 x g reps t with
      | Ok (ar, t') => list_eqb ql_eq ar seen && Nat.eqb (used t t') consumed | Err _ => false end
  | StratPval a tst d plus1 p => rel_close (strat_pvalue a (count_ge tst d) (length d) plus1) p
  | Sptm2Case g c resp impl => res_eqb rel_close (sptm2 g c resp (unique g) (unique c)) impl
  end.
