From PV Require Import Lib.Base Model.Sprt.
Open Scope Q_scope.

(* lr given either as the Bernoulli ratio (po, pa) or as a table: prefix length -> value *)
Inductive lrfun := Bern (po pa : Q) | Table (vals : list Q).
Definition lr_of (f : lrfun) : list Z -> Q :=
  match f with
  | Bern po pa => bernoulli_lh_ratio po pa
  | Table vals => fun pre => nth (length pre) vals 0
  end.

Inductive case :=
  Case (f : lrfun) (alpha beta : Q) (xs : list Z) (ro : bool)
       (rej0 rejA : bool) (ts : Q) (log : list (list Z)).

Definition tol : Q := 1 # 1000000000.
Definition rel_close (a b : Q) : bool :=
  Qle_bool (Qabs (a - b)) (tol * (Qabs a + 1)).

Definition check_case (c : case) : bool :=
  match c with
  | Case f al be xs ro r0 rA ts log =>
      let '(concl, t, lg) := sprt (lr_of f) al be xs ro in
      Bool.eqb (fst concl) r0 && Bool.eqb (snd concl) rA && rel_close t ts
      && list_eqb (list_eqb Z.eqb) lg log
  end.
