From PV Require Import Lib.Base Model.TailsZ Model.ConfInt.
Open Scope Q_scope.
Inductive case := BCI (n x : nat) (cl : Q) (alt : cialt) (L U p1 p2 q1 q2 : Q).
Definition delta : Q := 1 # 1000000000.
Definition check_case (c : case) : bool :=
  match c with BCI n x cl alt L U p1 p2 q1 q2 => cp_check n x cl alt L U p1 p2 q1 q2 delta end.
