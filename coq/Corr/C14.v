From PV Require Import Lib.Base Model.TailsZ Model.Pvalues.
Open Scope Z_scope.

Inductive case :=
  | HCase (x N n G : nat) (a : alt) (impl : result Q)
  | BCase (x n : nat) (pa pb : Z) (a : alt) (impl : result Q).

Definition tol : Q := 1 # 1000000000000.

Definition check_case (c : case) : bool :=
  match c with
  | HCase x N n G a i => res_close tol (hypergeometric x N n G a) i
  | BCase x n pa pb a i => res_close tol (binomial_p x n pa pb a) i
  end.
