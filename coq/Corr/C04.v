From PV Require Export Corr.AllRand.
