From PV Require Export Corr.CoreCases.
