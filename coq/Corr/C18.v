From PV Require Import Lib.Base Model.Irr.
Open Scope Z_scope.

Inductive case :=
  | TsCase (m : list (list Z)) (impl : Q)                       (* compute_ts *)
  | SimCase (m : list (list Z)) (ov : option Q) (sims : list (list (list Z))) (plus1 : bool)
            (obs : Q) (geq : nat) (p : Q) (dist : option (list Q))   (* simulate_ts_dist *)
  | NpcDistCase (cols : list (list Q)) (obs : list Q) (plus1 : bool) (rsq : list Q) (obs_npc : Q).

Definition tol : Q := 1 # 1000000000000.
Definition qsum (l : list Q) : Q := fold_right Qplus 0%Q l.

Definition check_case (c : case) : bool :=
  match c with
  | TsCase m i =>
      close tol (compute_ts m) i
      && list_eqb Z.eqb (colsums m) (map zsum (transpose m))
  | SimCase m ov sims plus1 obs geq p dist =>
      let '(o, g, pv, d) := simulate_ts_summary m ov sims plus1 in
      close tol o obs && Nat.eqb g geq && close tol pv p
      && match dist with None => true | Some dl => list_eqb (close tol) d dl end
  | NpcDistCase cols obs plus1 rsq obs_npc =>
      let ps := npc_dist_pvalues cols obs plus1 in
      close (1 # 1000000000) (Qopp (qsum (map (fun pr => fst pr * snd pr)%Q (combine ps rsq)))) obs_npc
  end.
