From PV Require Import Lib.Base Model.TailsZ Model.ConfInt.
Open Scope Q_scope.
Inductive case := HCI (n x N : nat) (cl : Q) (alt : cialt) (lo hi : nat).
Definition check_case (c : case) : bool :=
  match c with
  | HCI n x N cl alt lo hi =>
      let m := hypergeom_conf_interval n x N cl alt in
      let s := hgci_spec n x N cl alt in
      Nat.eqb (fst m) lo && Nat.eqb (snd m) hi && Nat.eqb (fst s) lo && Nat.eqb (snd s) hi
  end.
