(* Correspondence glue for C20: one case = input array + what the implementation returned *)
From PV Require Import Lib.Base Lib.Sort Model.Qa.
From Coq Require Import String.
Open Scope Z_scope.

Inductive case :=
  Case (x : list row) (dups : list row) (consec : result (list row))
       (dups_s : list string) (consec_s : result (list string)).

Definition rows_eqb := list_eqb row_eqb.
Definition strs_eqb := list_eqb String.eqb.

Definition check_case (c : case) : bool :=
  match c with
  | Case x d cs ds css =>
      rows_eqb (find_duplicate_rows x) d
      && res_eqb rows_eqb (find_consecutive_duplicate_rows x) cs
      && strs_eqb (rows_to_strings (find_duplicate_rows x)) ds
      && res_eqb strs_eqb
           (match find_consecutive_duplicate_rows x with
            | Ok l => Ok (rows_to_strings l) | Err e => Err e end) css
  end.
