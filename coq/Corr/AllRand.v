(* union of the unstratified and stratified correspondence cases, used by C03 C04 C05 C06 *)
From PV Require Import Lib.Base Model.Prng Model.Core Model.Stratified Corr.CoreCases Corr.C02.
Inductive case := CoreC (c : CoreCases.case) | StratC (c : C02.case).
Definition check_case (c : case) : bool :=
  match c with CoreC x => CoreCases.check_case x | StratC x => C02.check_case x end.
