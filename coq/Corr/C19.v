From PV Require Import Lib.Base Model.Prng Model.Incidence.
Open Scope Z_scope.
Inductive case := PCase (m : matrix) (two_d : bool) (k : nat) (t : tape) (impl : result matrix) (consumed : nat).
Definition mat_eqb := list_eqb (list_eqb Z.eqb).
Definition check_case (c : case) : bool :=
  match c with
  | PCase m two_d k t impl consumed =>
      match permute_incidence_fixed_sums m two_d k t, impl with
      | Ok (o, t'), Ok i => mat_eqb o i && Nat.eqb (length t - length t') consumed
      | Err e, Err f => exn_eqb e f
      | _, _ => false
      end
  end.
