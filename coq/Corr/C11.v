From PV Require Import Lib.Base Model.Adjust.
Open Scope Q_scope.

Inductive case := Case (p : list Q) (ord : list nat) (m : method) (impl : result (list Q)).
Definition tol : Q := 1 # 1000000000000.

Definition spec_of (p : list Q) (m : method) : result (list Q) :=
  match m with Holm => Ok (holm_spec p) | BH => Ok (bh_spec p) | Bonferroni => Ok (bonf_spec p)
             | Unknown => Err ValueError end.

(* model (with the argsort oracle) = implementation, oracle order is a sorting permutation, and the
   sort-free textbook form agrees too *)
Definition check_case (c : case) : bool :=
  match c with
  | Case p ord m impl =>
      is_sorting_perm p ord
      && res_eqb (list_eqb (close tol)) (adjust_p p ord m) impl
      && res_eqb (list_eqb (close tol)) (spec_of p m) impl
  end.
