(* Correspondence glue shared by C01, C03, C04, C05, C06, C16: the unstratified tests. *)
From PV Require Import Lib.Base Model.Prng Model.Core Model.Stratified Model.NoDist Model.NoDistStrat.
Open Scope Q_scope.

Definition rtol : Q := 1 # 1000000000000.
Definition rel_close (a b : Q) : bool :=
  Qeq_bool a b || Qle_bool (Qabs (a - b)) (rtol * (Qabs a + Qabs b)).
Definition ql_close := list_eqb rel_close.
Definition ql_eq := list_eqb Qeq_bool.
Definition opt_check {A} (f : A -> bool) (o : option A) : bool := match o with None => true | Some a => f a end.

Definition args2 (pot : list (Q * Q)) (nx : nat) (rr : list nat) : list Q * list Q :=
  let pp := take_rows (0, 0) pot rr in (map fst (firstn nx pp), map snd (skipn nx pp)).
Definition pair_eq (a b : list Q * list Q) : bool := ql_eq (fst a) (fst b) && ql_eq (snd a) (snd b).

Definition pot_of (x y : list Q) (sh : option shift) : result (list (Q * Q)) :=
  match sh with
  | None => Ok (combine (x ++ y) (x ++ y))
  | Some (Scalar d) => Ok (combine (x ++ map (fun v => v + d) y) (map (fun v => v - d) x ++ y))
  | Some (Pair f finv) => potential_outcomes x y f finv
  | Some _ => Err ValueError
  end.

(* what the implementation returned: (p, observed statistic, dist if keep_dist) *)
Definition impl3 := result (Q * Q * option (list Q)).

Inductive case :=
  | TwoSample (x y : list Q) (s : stat2) (a : alt) (reps : nat) (plus1 : bool) (sh : option shift)
              (t : tape) (impl : impl3) (recorded : option (list (list Q * list Q))) (consumed : nat)
  | OneSample (x : list Q) (y : option (list Q)) (s : stat1) (a : alt) (reps : nat) (plus1 : bool)
              (t : tape) (impl : impl3) (recorded : option (list (list Q))) (consumed : nat)
  | CorrCase (x : list Q) (a : alt) (reps : nat) (plus1 : bool) (t : tape)
             (arrs_seen : list (list Q)) (tst : Q) (sims : list Q) (p : Q) (consumed : nat)
  | KSample (x : list Q) (g : list Z) (s : statk) (reps : nat) (plus1 : bool) (t : tape)
            (impl : impl3) (recorded : option (list (list Z))) (consumed : nat)
  | PotCase (x y : list Q) (f finv : fn) (impl : result (list (Q * Q)))
  | PermuteCase (x : list Q) (t : tape) (out : list Q) (consumed : nat)
  | ShuffleCase (x : list Q) (t : tape) (out : list Q) (consumed : nat)
  | PvalCase (a : alt) (tst : Q) (d : list Q) (plus1 : bool) (p : Q).   (* p-value assembly from a float dist *)

Definition used (t t' : tape) : nat := (length t - length t')%nat.

Definition check_out (o : result test_out) (t : tape) (impl : impl3) (consumed : nat) : bool :=
  match o, impl with
  | Ok r, Ok (p, ts, d) =>
      rel_close (pval r) p && rel_close (tstat r) ts && opt_check (ql_close (dist r)) d
      && Nat.eqb (used t (rest r)) consumed
  | Err e, Err f => exn_eqb e f
  | _, _ => false
  end.

(* a run with keep_dist=False (no distribution returned) is ALSO compared with the model of the keep_dist=False code path *)
Definition check_nodist (o : result (Q * Q * tape)) (t : tape) (impl : impl3) (consumed : nat) : bool :=
  match impl with
  | Ok (p, ts, None) =>
      match o with
      | Ok (mp, mts, t') => rel_close mp p && rel_close mts ts && Nat.eqb (used t t') consumed
      | Err _ => false
      end
  | _ => true
  end.

Definition check_case (c : case) : bool :=
  match c with
  | TwoSample x y s a reps plus1 sh t impl rec consumed =>
      let o := match sh with
               | None => two_sample x y s a reps plus1 t
               | Some h => two_sample_shift x y s a reps plus1 h t
               end in
      check_out o t impl consumed
      && match pot_of x y sh with
         | Ok pot => check_nodist (two_sample_core_nodist s pot (length x) a reps plus1 t) t impl consumed
         | Err _ => true
         end
      && match o, pot_of x y sh with
         | Ok r, Ok pot => opt_check (fun l => list_eqb pair_eq (map (args2 pot (length x)) (arrs r)) l) rec
         | _, _ => true
         end
  | OneSample x y s a reps plus1 t impl rec consumed =>
      let o := one_sample x y s a reps plus1 t in
      check_out o t impl consumed
      && check_nodist (one_sample_nodist x y s a reps plus1 t) t impl consumed
      && match o with
         | Ok r =>
             let z := match y with None => x | Some yy => map (fun p => fst p - snd p) (combine x yy) end in
             opt_check (fun l => list_eqb ql_eq
               (map (fun b => map (fun zb => fst zb * (1 - (2 # 1) * qn (snd zb))) (combine z b)) (arrs r)) l) rec
         | _ => true
         end
  | CorrCase x a reps plus1 t seen tst sims p consumed =>
      match perm_loop x reps t with
      | Ok (ar, t') => list_eqb ql_eq ar seen && Nat.eqb (used t t') consumed
                       && rel_close (corr_pvalue a tst sims plus1) p && Nat.eqb (length sims) reps
      | Err _ => false
      end
  | KSample x g s reps plus1 t impl rec consumed =>
      check_nodist (k_sample_nodist x g s reps plus1 t) t impl consumed &&
      match k_sample x g s reps plus1 t, impl with
      | Ok (p, ts, d, ar, t'), Ok (ip, its, idist) =>
          rel_close p ip && rel_close ts its && opt_check (ql_close d) idist
          && Nat.eqb (used t t') consumed && opt_check (fun l => list_eqb (list_eqb Z.eqb) ar l) rec
      | Err e, Err f => exn_eqb e f
      | _, _ => false
      end
  | PotCase x y f finv impl =>
      res_eqb (list_eqb (fun a b => rel_close (fst a) (fst b) && rel_close (snd a) (snd b)))
              (potential_outcomes x y f finv) impl
  | PermuteCase x t out consumed =>
      match permute x t with Ok (o, t') => ql_eq o out && Nat.eqb (used t t') consumed | Err _ => false end
  | ShuffleCase x t out consumed =>
      match pyshuffle x t with Ok (o, t') => ql_eq o out && Nat.eqb (used t t') consumed | Err _ => false end
  | PvalCase a tst d plus1 p =>
      rel_close (the_pvalue a (count_ge tst d) (count_le tst d) (length d) plus1) p
  end.
