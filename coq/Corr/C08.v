From PV Require Import Lib.Base Model.Npc.
Open Scope Q_scope.
(* C08 compares the same model function npc with the implementation on pairs of related inputs;
   the relations themselves are asserted on the implementation by the harness and proved of the
   model in Properties/C08.v.  TipCase / InwCase: the combining functions' own values. *)
Inductive case :=
  | NpcCase (p : list Q) (distr : list (list Q)) (c : comb) (plus1 : bool) (impl : result Q)
  | TipCase (p : list Q) (impl : Q)
  | InwCase (p rsq : list Q) (impl : Q).
Definition tol : Q := 1 # 1000000000000.
Definition check_case (cs : case) : bool :=
  match cs with
  | NpcCase p d c plus1 impl => res_close tol (npc p d c plus1) impl
  | TipCase p impl => close tol (psi Tippett p) impl
  | InwCase p rsq impl => close (1 # 1000000000) (psi (NegWSum rsq) p) impl
  end.
