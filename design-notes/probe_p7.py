import numpy as np, copy
from permute import npc as N
E=N.Experiment
R=E.Randomizer(randomize=N.randomize_in_strata, seed=5)
d=E(group=['a','b','a','b','c','c','a'], response=[[1,2],[3,4],[5,6],[7,8],[9,1],[2,3],[4,5]], covariate=[[0],[0],[0],[1],[1],[1],[1]], randomizer=R)
g0=d.group.copy(); r0=d.response.copy(); c0=d.covariate.copy()
d2=d.randomize(in_place=False, seed=7)
print("nonplace same:", (d.group==g0).all(), "copy:", d2.group, d2 is d)
d3=d.randomize(in_place=True, seed=7); print(d3 is d, d.group, (d.response==r0).all(), (d.covariate==c0).all())
for s in np.unique(c0[:,0]):
    print(s, sorted(d.group[c0[:,0]==s]), sorted(g0[c0[:,0]==s]))
tests=E.make_test_array(E.TestFunc.one_way_anova,[0,1])
g1=d.group.copy()
print(N.sim_npc(d,tests,reps=20,seed=3)[0], (d.group==g1).all())
print(N.sim_npc(d,tests,reps=20,seed=3,in_place=True)[0], (d.group==g1).all(), sorted(d.group)==sorted(g0))
try: N.sim_npc([1,2],tests)
except ValueError as e: print("VE",e)
try: E([1],[[1]],randomizer=lambda x:x)
except ValueError as e: print("VE",e)
# two-group test funcs
d=E(group=[2,1,2,1], response=[[1.,10],[2,20],[4,40],[8,80]])
print(E.TestFunc.mean_diff(d,0), "expect mean(grp1)-mean(grp2)=", (2+8)/2-(1+4)/2, E.TestFunc.ttest(d,1), E.TestFunc.one_way_anova(d,0))
# group as strings & westfall in place
adj,raw=N.westfall_young(d,E.make_test_array(E.TestFunc.mean_diff,[0,1]),reps=10,seed=1); print(adj,raw,d.group)
