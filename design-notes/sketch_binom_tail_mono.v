From Coq Require Import QArith Lqa Lia List.
Open Scope Q_scope.
Fixpoint T (n x : nat) (p : Q) {struct n} : Q :=
  match n with
  | O => match x with O => 1 | S _ => 0 end
  | S n' => match x with
            | O => 1
            | S x' => p * T n' x' p + (1 - p) * T n' x p
            end
  end.
Lemma T_0 n p : T n 0 p == 1.
Proof. destruct n; reflexivity. Qed.
Lemma T_range n : forall x p, 0 <= p <= 1 -> 0 <= T n x p <= 1.
Proof.
  induction n as [|n IH]; intros x p Hp; destruct x as [|x]; simpl; try lra.
  pose proof (IH x p Hp). pose proof (IH (S x) p Hp). nra.
Qed.
Lemma T_anti_x n : forall x p, 0 <= p <= 1 -> T n (S x) p <= T n x p.
Proof.
  induction n as [|n IH]; intros x p Hp.
  - destruct x; simpl; lra.
  - destruct x as [|x].
    + simpl. pose proof (T_range n 0 p Hp). pose proof (T_range n 1 p Hp). rewrite T_0 in *. nra.
    + change (p * T n x p + (1-p) * T n (S x) p) with (T (S n) (S x) p).
      simpl. pose proof (IH x p Hp). pose proof (IH (S x) p Hp). nra.
Qed.
Theorem T_mono_p n : forall x p q, 0 <= p -> p <= q -> q <= 1 -> T n x p <= T n x q.
Proof.
  induction n as [|n IH]; intros x p q H0 Hpq H1.
  - destruct x; simpl; lra.
  - destruct x as [|x]; simpl; [lra|].
    pose proof (IH x p q H0 Hpq H1). pose proof (IH (S x) p q H0 Hpq H1).
    assert (Hq : 0 <= q <= 1) by lra.
    pose proof (T_anti_x n x q Hq).
    nra.
Qed.
Print Assumptions T_mono_p.
