From mathcomp Require Import all_ssreflect.
Set Implicit Arguments. Unset Strict Implicit. Unset Printing Implicit Defensive.

Section SelShuffle.
Variable T : eqType.
Variable pick : seq T -> nat -> T * seq T.
Hypothesis pick_perm : forall l j, j < size l -> perm_eq ((pick l j).1 :: (pick l j).2) l.
Hypothesis pick_inj : forall l j1 j2, uniq l -> j1 < size l -> j2 < size l ->
   (pick l j1).1 = (pick l j2).1 -> j1 = j2.

Fixpoint shuf (l : seq T) (js : seq nat) : seq T :=
  match js with
  | [::] => [::]
  | j :: js' => (pick l j).1 :: shuf (pick l j).2 js'
  end.

Fixpoint draws (n : nat) : seq (seq nat) :=
  match n with
  | 0 => [:: [::]]
  | n'.+1 => [seq j :: d | j <- iota 0 n'.+1, d <- draws n']
  end.

Lemma drawsS n : draws n.+1 = [seq j :: d | j <- iota 0 n.+1, d <- draws n].
Proof. by []. Qed.
Lemma size_draws n : size (draws n) = n`!.
Proof. elim: n => // n IH. by rewrite drawsS size_allpairs size_iota IH factS. Qed.

Lemma drawsP n x : x \in draws n.+1 ->
  exists j d, [/\ x = j :: d, j < n.+1 & d \in draws n].
Proof.
rewrite drawsS; case/allpairsP => -[j d] [jin din ->].
exists j, d; split => //; by move: jin; rewrite [(j, d).1]/= mem_iota add0n.
Qed.

Lemma pick_size l j : j < size l -> size (pick l j).2 = (size l).-1.
Proof. by move=> /pick_perm /perm_size /= <-. Qed.

Lemma shuf_perm n : forall l d, size l = n -> d \in draws n -> perm_eq (shuf l d) l.
Proof.
elim: n => [|n IH] l d szl.
  by rewrite /= inE => /eqP ->; move/eqP: szl; rewrite size_eq0 => /eqP ->.
case/drawsP => j [d' [-> jlt' d'in]] /=.
have jlt : j < size l by rewrite szl.
have sz2 : size (pick l j).2 = n by rewrite pick_size // szl.
apply: perm_trans (pick_perm jlt); rewrite perm_cons; exact: IH.
Qed.

Lemma shuf_inj n : forall l d1 d2, uniq l -> size l = n ->
  d1 \in draws n -> d2 \in draws n -> shuf l d1 = shuf l d2 -> d1 = d2.
Proof.
elim: n => [|n IH] l d1 d2 Ul szl.
  by rewrite /= !inE => /eqP -> /eqP ->.
case/drawsP => j1 [e1 [-> j1lt' e1in]].
case/drawsP => j2 [e2 [-> j2lt' e2in]] /= [eqh eqt].
have j1lt : j1 < size l by rewrite szl.
have j2lt : j2 < size l by rewrite szl.
have ej : j1 = j2 by apply: (@pick_inj l).
subst j2; congr (_ :: _).
have U2 : uniq (pick l j1).2.
  by have := pick_perm j1lt => /perm_uniq; rewrite Ul /=; case/andP.
apply: (IH (pick l j1).2) => //; by rewrite pick_size // szl.
Qed.

Theorem shuf_uniform l : uniq l ->
  perm_eq [seq shuf l d | d <- draws (size l)] (permutations l).
Proof.
move=> Ul.
have Ud : uniq (draws (size l)).
  elim: (size l) => // n IHn; rewrite drawsS; apply: allpairs_uniq => //.
  - exact: iota_uniq.
  - by move=> [a b] [c d] _ _ /= [-> ->].
have Um : uniq [seq shuf l d | d <- draws (size l)].
  rewrite map_inj_in_uniq // => d1 d2 d1in d2in; exact: (@shuf_inj (size l) l).
have sub : {subset [seq shuf l d | d <- draws (size l)] <= permutations l}.
  by move=> t /mapP [d din ->]; rewrite mem_permutations; apply: (@shuf_perm (size l)).
have szle : size (permutations l) <= size [seq shuf l d | d <- draws (size l)].
  by rewrite size_map size_draws size_permutations.
have [_ eqm] := uniq_min_size Um sub szle.
apply: uniq_perm => //; exact: permutations_uniq.
Qed.
End SelShuffle.

Print Assumptions shuf_uniform.
