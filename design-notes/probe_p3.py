import numpy as np
from permute import npc as N
# float tie: compare (c+1)/B vs 1 - r/B + 1/B with r = B - c  (c = count of sims >= obs, B = reps+1)
bad_hi=[];bad_lo=[]
for B in range(2,400):
    for c in range(0,B):
        a=(c+1)/B
        r=B-c
        b=1 - r/B + 1/B
        if b>a: bad_hi.append((B,c))
        elif b<a: bad_lo.append((B,c))
print("npc-row p > sim_npc p (observed row fails to count itself):", len(bad_hi), bad_hi[:10])
print("npc-row p < sim_npc p:", len(bad_lo), bad_lo[:10])
# Construct scripted experiment: table-lookup
class Scripted:
    pass
# Build a direct check of npc on dist with observed appended
def run(B,c, combine):
    reps=B-1
    # column 1: observed stat is such that c sims >= it; make 2 identical columns
    col=np.arange(reps,dtype=float)  # sims 0..reps-1
    obs=reps-c-0.5 if c>0 else reps+1.0   # exactly c sims >= obs
    ps=(np.sum(col>=obs)+1)/(reps+1)
    dist=np.column_stack([np.append(col,obs)]*2)
    return N.npc(np.array([ps,ps]),dist,combine=combine,plus1=False), ps
for (B,c) in bad_hi[:6]:
    for comb in ['fisher','liptak','tippett']:
        p,ps=run(B,c,comb)
        print(B,c,comb,"npc=",p,"expected",(c+1)/B, "OK" if abs(p-(c+1)/B)<1e-12 else "MISMATCH")
