From mathcomp Require Import all_ssreflect zify.
Set Implicit Arguments. Unset Strict Implicit. Unset Printing Implicit Defensive.

Section Binom.
Variable D : Type.
Variable hit : D -> bool.

Fixpoint tuples (r : nat) (s : seq D) : seq (seq D) :=
  match r with
  | 0 => [:: [::]]
  | r'.+1 => [seq t :: ts | t <- s, ts <- tuples r' s]
  end.
Lemma tuplesS r s : tuples r.+1 s = [seq t :: ts | t <- s, ts <- tuples r s].
Proof. by []. Qed.

Definition nhits (ts : seq D) := count hit ts.
Definition N (r h : nat) (s : seq D) := count (fun ts => nhits ts == h) (tuples r s).

Lemma count_allpairs_cons (P : seq D -> bool) (s : seq D) (L : seq (seq D)) :
  count P [seq t :: ts | t <- s, ts <- L] = sumn [seq count (fun ts => P (t :: ts)) L | t <- s].
Proof.
rewrite count_flatten -map_comp; congr sumn; apply: eq_map => t /=.
by rewrite count_map.
Qed.

Lemma sum_step (L : seq (seq D)) h s :
  sumn [seq count (fun ts => nhits (t :: ts) == h) L | t <- s] =
  count hit s * (if h is h'.+1 then count (fun ts => nhits ts == h') L else 0)
  + (size s - count hit s) * count (fun ts => nhits ts == h) L.
Proof.
elim: s => [|t s IH] //=.
rewrite {}IH /nhits /=.
have szs := count_size hit s.
case ht: (hit t) => /=.
- have -> : count (fun ts : seq D => 1 + count hit ts == h) L =
            (if h is h'.+1 then count (fun ts => count hit ts == h') L else 0).
    case: h => [|h']; first by rewrite (@eq_count _ _ pred0) ?count_pred0.
    by apply: eq_count => ts /=; rewrite add1n eqSS.
  nia.
- have -> : count (fun ts : seq D => 0 + count hit ts == h) L = count (fun ts => count hit ts == h) L.
    by apply: eq_count => ts /=; rewrite add0n.
  nia.
Qed.

Lemma N_step r h s :
  N r.+1 h s = count hit s * (if h is h'.+1 then N r h' s else 0) + (size s - count hit s) * N r h s.
Proof. by rewrite /N tuplesS count_allpairs_cons sum_step. Qed.

Theorem hits_binomial r : forall h s,
  N r h s = 'C(r, h) * (count hit s) ^ h * (size s - count hit s) ^ (r - h).
Proof.
elim: r => [|r IH] h s.
  rewrite /N /= /nhits /=; case: h => [|h] //=; by rewrite bin0n.
rewrite N_step; set a := count hit s; set b := size s - a.
case: h => [|h].
  rewrite IH !bin0 !expn0 !subn0 expnS; set X := b ^ r; nia.
rewrite !IH -/a -/b binS subSS.
case: (leqP h r) => hr; last first.
  by rewrite !bin_small ?mul0n ?muln0 ?addn0 //; apply: ltnW.
rewrite mulnDl mulnDl addnC; congr (_ + _).
- case: (ltnP h r) => hr2; last first.
    have -> : h = r by apply/eqP; rewrite eqn_leq hr hr2.
    by rewrite bin_small // !mul0n muln0.
  rewrite -(subnSK hr2) [b ^ _.+1]expnS; set X := a ^ h.+1; set Y := b ^ (r - h.+1); set Cb := 'C(r, h.+1); nia.
- rewrite expnS; set X := a ^ h; set Y := b ^ (r - h); set Cb := 'C(r, h). nia.
Qed.
End Binom.
Print Assumptions hits_binomial.
