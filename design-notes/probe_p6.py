import numpy as np, itertools, collections
from fractions import Fraction as F
from permute import utils, core, npc, stratified, ksample, irr, sprt, qa
from scipy.special import comb
# C20
bad=0;n=0
for r in range(1,5):
  for c in range(1,3):
    for vals in itertools.product(range(2 if r*c>4 else 3),repeat=r*c):
        x=np.array(vals).reshape(r,c); x0=x.copy(); n+=1
        try:
            d=qa.find_duplicate_rows(x); cd=qa.find_consecutive_duplicate_rows(x)
        except Exception as e:
            bad+=1; 
            if bad<5: print("EXC",x.tolist(),type(e).__name__,e)
            continue
        cnt=collections.Counter(map(tuple,x.tolist()))
        exp=collections.Counter({k:v-1 for k,v in cnt.items() if v>1})
        got=collections.Counter(map(tuple,np.asarray(d).tolist()))
        expc=[tuple(x[i+1]) for i in range(r-1) if (x[i+1]==x[i]).all()]
        gotc=list(map(tuple,np.asarray(cd).tolist()))
        if got!=exp or gotc!=expc or not (x==x0).all():
            bad+=1
            if bad<5: print("BAD",x.tolist(),got,exp,gotc,expc)
print("C20 cases",n,"bad",bad)
try: print(qa.find_consecutive_duplicate_rows(np.array([[1,2]])), qa.find_duplicate_rows(np.array([[1,2]])))
except Exception as e: print("single row EXC",e)
print(qa.find_duplicate_rows(np.array([[1,2],[1,2],[1,2]]),as_string=True), qa.find_consecutive_duplicate_rows(np.array([[1,2],[1,2],[1,2]]),as_string=True))
# C18
bad=0
for R in range(2,5):
  for Ns in range(1,4):
    for vals in itertools.product([0,1],repeat=R*Ns):
        m=np.array(vals).reshape(R,Ns)
        agree=sum(1 for i in range(Ns) for a in range(R) for b in range(a+1,R) if m[a,i]==m[b,i])
        exp=F(agree, Ns*R*(R-1)//2)
        got=irr.compute_ts(m)
        if abs(got-float(exp))>1e-12: bad+=1
print("C18 bad",bad)
print(irr.simulate_ts_dist(np.array([[1,0,1],[1,1,0]]),obs_ts=0.2,num_perm=5,seed=3,keep_dist=True))
# C14 exhaustive small
bad=0
for N in range(1,9):
  for G in range(0,N+1):
    for n in range(0,N+1):
      for x in range(0,min(n,G)+1):
        pm=lambda k: F(int(comb(G,k,exact=True)*comb(N-G,n-k,exact=True)), int(comb(N,n,exact=True)))
        up=sum(pm(k) for k in range(x,n+1)); lo=sum(pm(k) for k in range(0,x+1))
        for alt,e in (('greater',up),('less',lo),('two-sided',min(1,2*min(up,lo)))):
            try: g=utils.hypergeometric(x,N,n,G,alt)
            except Exception as ex: bad+=1; print("EXC",x,N,n,G,ex); continue
            if not abs(g-float(e))<1e-9:
                bad+=1
                if bad<6: print("C14 hyper",x,N,n,G,alt,g,float(e))
print("C14 bad",bad)
for args in [(5,4,.5),(3,10,0.0),(0,10,1.0),(10,10,0.0)]:
    try: print("binomial_p",args,[utils.binomial_p(*args,a) for a in ('greater','less','two-sided')])
    except Exception as e: print("binomial_p",args,"EXC",e)
