From Coq Require Import ZArith PrimFloat Uint63.
Open Scope float_scope.
Definition fZ (z:Z) : float := of_uint63 (Uint63.of_Z z).
Definition obs_p (B c:Z) := (fZ (c+1)) / (fZ B).
Definition row_p (B c:Z) := (1 - (fZ (B - c)) / (fZ B)) + 1 / (fZ B).
Eval vm_compute in (obs_p 3 1, row_p 3 1, PrimFloat.ltb (obs_p 3 1) (row_p 3 1)).
Eval vm_compute in (obs_p 10 2, row_p 10 2).
Theorem selftie_refuted : exists B c, (0 <= c < B)%Z /\ PrimFloat.ltb (obs_p B c) (row_p B c) = true.
Proof. exists 3%Z, 1%Z. split; [split; reflexivity | vm_compute; reflexivity]. Qed.
Print Assumptions selftie_refuted.
