From mathcomp Require Import all_ssreflect.
Set Implicit Arguments. Unset Strict Implicit. Unset Printing Implicit Defensive.
Section FY.
Variable T : eqType.
Variable dflt : T.
Definition fy_pick (l : seq T) (j : nat) : T * seq T :=
  match l with
  | [::] => (dflt, [::])
  | x :: xs => if j is j'.+1 then (nth x xs j', set_nth x xs j' x) else (x, xs)
  end.
Lemma fy_pick_perm l j : j < size l -> perm_eq ((fy_pick l j).1 :: (fy_pick l j).2) l.
Proof.
case: l => // x xs; case: j => [|j] //= jlt.
elim: xs j jlt => // y ys IH [|j] /= jlt.
  by rewrite (perm_catCA [:: y] [:: x]).
have := IH j jlt; rewrite -(perm_cons y) => H.
apply: perm_trans _ (_ : perm_eq [:: y, x & ys] _); last by rewrite (perm_catCA [:: y] [:: x]).
apply: perm_trans H.
by rewrite (perm_catCA [:: nth x ys j] [:: y]).
Qed.
Lemma fy_pick_inj l j1 j2 : uniq l -> j1 < size l -> j2 < size l ->
  (fy_pick l j1).1 = (fy_pick l j2).1 -> j1 = j2.
Proof.
case: l => // x xs /= /andP [xnotin Uxs].
case: j1 => [|j1]; case: j2 => [|j2] //= j1lt j2lt.
- by move=> e; move: xnotin; rewrite e mem_nth.
- by move=> e; move: xnotin; rewrite -e mem_nth.
- by move/eqP; rewrite nth_uniq // => /eqP ->.
Qed.
End FY.
