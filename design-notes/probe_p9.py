import numpy as np, itertools
from scipy.stats import ttest_ind
from permute import core
x=[1.,2,4]; y=[3.,7,8,9]
vals=set()
for px in itertools.permutations(x):
    for py in itertools.permutations(y):
        vals.add(float(ttest_ind(np.array(px),np.array(py),equal_var=True)[0]))
print("distinct float t over orderings of the same partition:",len(vals),sorted(vals))
vals=set()
for px in itertools.permutations(x):
    for py in itertools.permutations(y):
        vals.add(float(np.mean(px)-np.mean(py)))
print("mean:",len(vals))
x=[0.1,0.2,0.4]; y=[0.3,0.7,0.8,0.9]
vals=set()
for px in itertools.permutations(x):
    for py in itertools.permutations(y):
        vals.add(float(np.mean(px)-np.mean(py)))
print("mean decimal data:",len(vals),sorted(vals))
vals=set()
for px in itertools.permutations(x):
    for py in itertools.permutations(y):
        vals.add(float(np.corrcoef(px+py[:0], [1,2,3])[0,1]) if False else 0)
# corr: permuting x against fixed y: identity pairing re-obtained exactly only by identity perm, fine.
