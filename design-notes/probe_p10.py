import numpy as np, hashlib
import permute, sys
print(permute.__file__)
from cryptorandom.cryptorandom import SHA256
# reconstruct stream: digest_k = sha256(str(seed)+',' + b'\x00'*k)
def digests(seed,n):
    return [int.from_bytes(hashlib.sha256((str(seed)+',').encode()+b'\x00'*k).digest(),'big') for k in range(n)]
r=SHA256(42); d=digests(42,5)
print(r.random()==d[0]*2**-256, r.random()==d[1]*2**-256)
r=SHA256(42); bits=[r.getrandbits(3) for _ in range(5)]
print(bits, [(d[0]>>(3*i))&7 for i in range(5)])
# deepcopy changes seed?
import copy
r=SHA256(5); r.random(); c=copy.deepcopy(r); print(repr(r)); print(repr(c))
print(np.__version__)
rs=np.random.RandomState(3)
class L(np.random.RandomState):
    def __init__(s,*a): super().__init__(*a); s.calls=[]
    def shuffle(s,x): s.calls.append(('shuffle',len(x))); return super().shuffle(x)
    def randint(s,*a,**k): s.calls.append(('randint',a)); return super().randint(*a,**k)
    def random(s,*a,**k): s.calls.append(('random',a)); return super().random(*a,**k)
    def choice(s,*a,**k): s.calls.append(('choice',len(a[0]))); return super().choice(*a,**k)
from permute import core, utils, stratified
l=L(3); core.two_sample(np.arange(3),np.arange(4),reps=2,seed=l); utils.permute(np.arange(4),l); core.one_sample(np.arange(3),reps=1,seed=l); print(l.calls)
