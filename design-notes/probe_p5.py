import numpy as np, random
from cryptorandom.cryptorandom import SHA256
from permute import utils, core, npc, stratified, ksample, irr
class Tape(SHA256):
    """Scripted generator: every request is logged as (kind, bound) and answered from a tape."""
    def __init__(self, answers):
        super().__init__(0); self.ans=list(answers); self.log=[]
    def _next(self, kind, m):
        a=self.ans.pop(0) if self.ans else 0
        self.log.append((kind,m,a)); return a
    def _randbelow(self, n): return self._next('below', n)
    def getrandbits(self, k): return self._next('bits', k)
    def random(self, size=None):
        if size is None: return self._next('float', None)
        return np.array([self._next('float',None) for _ in range(int(np.prod(size)))],dtype=object).reshape(size)
    def randint(self, a, b, size=None):
        if size is None: return a+self._next('below', b-a)
        return np.array([a+self._next('below', b-a) for _ in range(int(np.prod(size)))]).reshape(size)
t=Tape([]); print("isinstance SHA256:", isinstance(utils.get_prng(t),Tape))
print(type(t)._randbelow)
# permute -> random_permutation -> fykd: prng.random(k)
t=Tape([0.0,0.5,0.99]); print(utils.permute(np.array([10,20,30]),t), t.log)
# two_sample_core shuffle
t=Tape([]); rec=[]
def st(u,v): rec.append((u.tolist(),v.tolist())); return np.mean(u)-np.mean(v)
print(core.two_sample(np.array([1,2]),np.array([3,4,5]),reps=2,stat=st,seed=t,keep_dist=True)); print(t.log); print(rec)
# one_sample
t=Tape([1,0,1, 0,0,0]); print(core.one_sample(np.array([1.,2,3]),reps=2,seed=t,keep_dist=True), t.log)
# permute_within_groups
t=Tape([0.9,0.0, 0.6,0.0,0.0]); print(utils.permute_within_groups(np.array([1,2,3,4,5]),np.array([0,1,1,0,1]),t), t.log)
# randomize_group via random_sample -> sample_by_index -> prng.randint(1,n-i+1)
t=Tape([2,0,0]); d=npc.Experiment([1,1,2],[[1],[2],[3]],randomizer=npc.Experiment.Randomizer(seed=t)); d.randomize(); print(d.group,t.log)
# pifs choice
t=Tape([1,0]); 
np.random.seed(0); print(utils.permute_incidence_fixed_sums(np.array([[1,0,1],[0,1,0]]),k=1,seed=t), t.log)
# RandomState subclass
class RS(np.random.RandomState):
    def shuffle(self,x): print("RS.shuffle called"); return super().shuffle(x)
r=RS(1); print(isinstance(utils.get_prng(r),RS)); core.two_sample(np.array([1,2]),np.array([3,4,5]),reps=1,seed=r)
