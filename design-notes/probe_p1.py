import numpy as np, warnings, traceback
from permute import utils, core, npc, stratified, ksample, irr, sprt, qa
print("permute from", utils.__file__)
# C13 hypergeom_conf_interval
for args in [(2,1,5),(10,5,20),(2,2,5),(3,0,7)]:
    try: print("hgci",args,utils.hypergeom_conf_interval(*args,cl=0.95))
    except Exception as e: print("hgci",args,"EXC",type(e).__name__,e)
# C12 kwargs
try: print(utils.binom_conf_interval(10,3,xtol=1e-10))
except Exception as e: print("bci kwargs EXC",type(e).__name__,e)
try: print(utils.binom_conf_interval(10,3,maxiter=200))
except Exception as e: print("bci kwargs EXC",type(e).__name__,e)
print(utils.binom_conf_interval(10,3), utils.binom_conf_interval(10,0), utils.binom_conf_interval(10,10))
# C15 sprt
calls=[]
def lr(x): calls.append(list(x)); return sprt.bernoulli_lh_ratio(x,.5,.1)
print(sprt.sprt(lr,.05,.05,[1,1],True), calls)
calls.clear(); print(sprt.sprt(lr,.05,.05,[0,0,0],True), calls)
# C09 fwer_minp order
rs=np.random.RandomState(1); distr=rs.uniform(size=(200,3))
p=np.array([0.2,0.3,0.1])
print("fwer", npc.fwer_minp(p,distr,'fisher',plus1=False))
# relabel: permute columns
perm=[2,0,1]
print("fwer relabelled", npc.fwer_minp(p[perm],distr[:,perm],'fisher',plus1=False), "expected", npc.fwer_minp(p,distr,'fisher',plus1=False)[perm])
# C11 ties
print("holm ties", npc.adjust_p(np.array([0.01,0.01,0.03,0.5])), "BH ties", npc.adjust_p(np.array([0.01,0.01,0.03,0.5]),'benjamini-hochberg'))
