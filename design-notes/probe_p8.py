import numpy as np, itertools
from scipy.stats import beta
from permute import utils
bad=0;n_=0
for n in [1,2,3,5,10,37,100,1000]:
  for x in sorted(set([0,1,2,n//2,n-1,n])):
    if x<0 or x>n: continue
    for cl in [0.01,0.3,0.5,0.9,0.95,0.975,0.999,0.999999]:
      for alt in ['two-sided','lower','upper']:
        for p in [None,0.0,1.0,0.3]:
          n_+=1
          try: lo,hi=utils.binom_conf_interval(n,x,cl=cl,alternative=alt,p=p)
          except Exception as e:
              bad+=1
              if bad<10: print("EXC",n,x,cl,alt,p,type(e).__name__,e)
              continue
          a=(1-cl)/2 if alt=='two-sided' else 1-cl
          elo=0.0 if (x==0 or alt=='upper') else beta.ppf(a,x,n-x+1)
          ehi=1.0 if (x==n or alt=='lower') else beta.ppf(1-a,x+1,n-x)
          if abs(lo-elo)>1e-8 or abs(hi-ehi)>1e-8:
              bad+=1
              if bad<10: print("BAD",n,x,cl,alt,p,(lo,hi),(elo,ehi))
print("C12 cases",n_,"bad",bad)
