From Coq Require Import ZArith List Lia Bool.
Import ListNotations.
Open Scope Z_scope.
Definition cge (l : list Z) (x : Z) : nat := length (filter (fun y => x <=? y) l).
Lemma filter_length_le_imp {A} (P Q : A -> bool) l :
  (forall x, In x l -> P x = true -> Q x = true) ->
  (length (filter P l) <= length (filter Q l))%nat.
Proof.
  induction l as [|a l IH]; intros H; simpl; [lia|].
  assert (IH' := IH (fun x Hx => H x (or_intror Hx))).
  destruct (P a) eqn:Pa.
  - rewrite (H a (or_introl eq_refl) Pa). simpl. lia.
  - destruct (Q a); simpl; lia.
Qed.
Lemma list_min_exists (l : list Z) : l <> [] -> exists m, In m l /\ forall x, In x l -> m <= x.
Proof.
  induction l as [|a l IH]; [congruence|]. intros _.
  destruct l as [|b l'].
  - exists a. split; [left; reflexivity|]. intros x [->|[]]. lia.
  - destruct IH as [m [Hm Hle]]; [congruence|].
    destruct (Z_le_gt_dec a m).
    + exists a. split; [left; reflexivity|]. intros x [->|Hx]; [lia|]. specialize (Hle x Hx). lia.
    + exists m. split; [right; exact Hm|]. intros x [->|Hx]; [lia|]. apply Hle; exact Hx.
Qed.
Theorem rank_pvalue_valid (l : list Z) (k : nat) :
  (length (filter (fun x => Nat.leb (cge l x) k) l) <= k)%nat.
Proof.
  set (S := filter (fun x => Nat.leb (cge l x) k) l).
  destruct S as [|s S'] eqn:HS; [simpl; lia|].
  destruct (list_min_exists S) as [m [Hm Hmin]]; [subst S; rewrite HS; congruence|].
  rewrite <- HS.
  pose proof (proj1 (filter_In (fun x => Nat.leb (cge l x) k) m l) Hm) as Hm'. cbv beta in Hm'.
  destruct Hm' as [_ Hck]. apply Nat.leb_le in Hck.
  eapply Nat.le_trans; [|exact Hck].
  unfold cge. apply filter_length_le_imp.
  intros x Hx Px. apply Z.leb_le. apply Hmin. apply (proj2 (filter_In (fun x => Nat.leb (cge l x) k) x l)). split; assumption.
Qed.
Print Assumptions rank_pvalue_valid.
