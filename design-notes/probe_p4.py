import numpy as np, itertools
from fractions import Fraction as F
from permute import npc as N
def make(table):
    """table: (reps+1) x m ; row 0 observed. scripted randomizer sets data.group=[k] at k-th randomization"""
    state={'k':0}
    def rnd(data):
        state['k']+=1
        data.group=np.array([state['k']],dtype=object)
        return data
    data=N.Experiment(group=[0],response=[[0]],randomizer=N.Experiment.Randomizer(randomize=rnd))
    m=table.shape[1]
    tests=[ (lambda d,j=j: np.float64(table[int(d.group[0]),j])) for j in range(m)]
    return data,tests
def wy_ref(table, method, alt):
    T=np.array(table,dtype=float)
    if alt=='two-sided': T=np.abs(T)
    obs=T[0]; sims=T[1:]; reps=len(sims); m=T.shape[1]
    raw=[F(int(np.sum(sims[:,j]>=obs[j]))+1,reps+1) for j in range(m)]
    if method=='maxT':
        order=sorted(range(m),key=lambda j:-obs[j])   # descending stat
        adj=[None]*m; prev=F(0)
        for k,j in enumerate(order):
            rest=order[k:]
            cnt=sum(1 for b in range(reps) if max(sims[b,i] for i in rest)>=obs[j])
            a=F(cnt+1,reps+1); a=max(a,prev); adj[j]=a; prev=a
        return adj,raw
    else:
        # per-row p-values among all reps+1 rows (observed included)
        allrows=T
        P=np.zeros_like(T)
        for j in range(m):
            for b in range(reps+1):
                P[b,j]=np.sum(allrows[:,j]>=allrows[b,j])
        # P counts; p = P/(reps+1); obs row P[0]
        order=sorted(range(m),key=lambda j:P[0,j])
        adj=[None]*m; prev=F(0)
        for k,j in enumerate(order):
            rest=order[k:]
            cnt=sum(1 for b in range(1,reps+1) if min(P[b,i] for i in rest)<=P[0,j])
            a=F(cnt+1,reps+1); a=max(a,prev); adj[j]=a; prev=a
        return adj,raw
rs=np.random.RandomState(3)
bad=0
for trial in range(300):
    reps=rs.randint(1,7); m=rs.randint(1,4)
    table=rs.randint(-3,4,size=(reps+1,m))
    for method in ['minP','maxT']:
        for alt in ['greater','two-sided']:
            data,tests=make(table)
            try:
                adj,raw=N.westfall_young(data,tests,method=method,alternatives=alt,reps=reps)
            except Exception as e:
                print("EXC",method,alt,type(e).__name__,e); bad+=1; continue
            radj,rraw=wy_ref(table,method,alt)
            ok=all(abs(adj[j]-float(radj[j]))<1e-12 for j in range(m)) and all(abs(raw[j]-float(rraw[j]))<1e-12 for j in range(m))
            if not ok:
                bad+=1
                if bad<8: print(method,alt,"table",table.tolist(),"got",dict(adj),"ref",[str(x) for x in radj],"raw",dict(raw),[str(x) for x in rraw])
print("bad",bad)
