import numpy as np, warnings, traceback
from permute import utils, core, npc, stratified, ksample, irr, sprt, qa
from cryptorandom.cryptorandom import SHA256
group=np.array([1,1,1,1,2,2,2,2]); cond=np.array([0,1,0,1,0,1,0,1]); resp=np.array([1.,2,3,4,5,6,7,9])
for st in ['mean','t','mean_within_strata']:
    try: print(st, stratified.stratified_two_sample(group,cond,resp,stat=st,reps=50,seed=1))
    except Exception as e: print(st,"EXC",type(e).__name__,e)
# less tail with ties & plus1
resp0=np.zeros(8)
for alt in ['greater','less','two-sided']:
    print(alt, stratified.stratified_two_sample(group,cond,resp0,stat='mean',alternative=alt,reps=50,seed=1))
    print(alt, stratified.stratified_permutationtest(group,cond,resp0,alternative=alt,reps=50,seed=1)[:2])
    print(alt, stratified.sim_corr(np.array([1.,2,3,4,1,2,3,4]),np.array([1.,1,2,2,1,1,2,2]),group,alternative=alt,reps=50,seed=1)[:2])
# stratified mean with 3 groups, 2 conditions
g3=np.array([1,1,2,2,3,3]); c2=np.array([0,1,0,1,0,1]); r=np.array([0.,1,0,2,0,3])
print("sptm 3g2c", stratified.stratified_permutationtest_mean(g3,c2,r), "expected sum |diff| =6")
g2=np.array([1,1,1,2,2,2]); c3=np.array([0,1,2,0,1,2]); r=np.array([0.,1,5,0,2,7])
print("sptm 2g3c", stratified.stratified_permutationtest_mean(g2,c3,r), "expected sum std =", np.std([0,1,5])+np.std([0,2,7]))
# spearman
x=np.array([3.,1,2,10]); y=np.array([2.,9,1,5])
from scipy.stats import spearmanr
print("spearman", core.spearman_corr(x,y,reps=10,seed=1)[:2], spearmanr(x,y)[0])
print("spearman plus1", core.spearman_corr(x,y,reps=10,seed=1,plus1=False)[1], core.spearman_corr(x,y,reps=10,seed=1,plus1=True)[1])
# one_sample python float stat
try: print(core.one_sample(np.array([1.,2,3]), stat=lambda u: float(np.mean(u)), reps=10, seed=1, keep_dist=True)[:2])
except Exception as e: print("one_sample pyfloat EXC",type(e).__name__,e)
try: print(core.one_sample(np.array([1.,2,3]), stat=lambda u: float(np.mean(u)), reps=10, seed=1, keep_dist=False)[:2])
except Exception as e: print("one_sample pyfloat EXC",type(e).__name__,e)
try: print(core.two_sample(np.array([1.,2,3]),np.array([1.,5,3]), stat=lambda u,v: float(np.mean(u)-np.mean(v)), reps=10, seed=1, keep_dist=True)[:2])
except Exception as e: print("two_sample pyfloat EXC",type(e).__name__,e)
# permute_incidence seed
m=np.array([[1,0,1,0],[0,1,0,1],[1,1,0,0]])
outs=set()
for i in range(10):
    outs.add(utils.permute_incidence_fixed_sums(m,k=3,seed=5).tobytes())
print("pifs distinct outputs with same seed:", len(outs))
st=np.random.get_state()[1][:3].copy(); pos=np.random.get_state()[2]
utils.permute_incidence_fixed_sums(m,k=3,seed=5)
print("global state advanced:", pos!=np.random.get_state()[2])
