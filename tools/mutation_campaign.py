#!/venv/bin/python
"""Systematic mutation analysis of the checks (a test OF the machinery, not a check of statlab/permute):
small syntactic mutants of the functions the properties are anchored in are written into scratch copies of
/repo (never into /repo itself) and the quick checks of the properties concerned are run against each through
the VERIF_REPO override; survivors (no check reports a violation) point at blind spots of the harness or at
equivalent mutants and are triaged by hand.

usage: tools/mutation_campaign.py [--workers 8] [--only file.py[:func]] [--limit N] [--out /tmp/mv/results.jsonl]
Everything lives under /tmp/mv and is removed at the end except the result file."""
import ast, copy, json, os, shutil, subprocess, sys, time, argparse, hashlib
from concurrent.futures import ThreadPoolExecutor, as_completed
import queue
FREE = queue.Queue()

REPO = "/repo"
VERIF = os.path.dirname(os.path.dirname(os.path.abspath(__file__)))
WORK = "/tmp/mv"

# function -> properties whose checks exercise it
SCOPE = {
    "core.py": {"corr": ["C01", "C05"], "spearman_corr": ["C01", "C05"], "two_sample_core": ["C01", "C05", "C03"],
                "two_sample": ["C01", "C05"], "two_sample_shift": ["C16", "C01"], "one_sample": ["C01", "C05", "C04"]},
    "ksample.py": {"k_sample": ["C01", "C05"], "one_way_anova": ["C01"], "bivariate_k_sample": ["C02", "C05"], "two_way_anova": ["C02"]},
    "stratified.py": {"corrcoef": ["C02"], "sim_corr": ["C02", "C05"], "stratified_permutationtest_mean": ["C02"],
                      "stratified_permutationtest": ["C02", "C05"], "stratified_two_sample": ["C02", "C05"]},
    "utils.py": {"binom_conf_interval": ["C12"], "hypergeom_conf_interval": ["C13"], "hypergeometric": ["C14"], "binomial_p": ["C14"],
                 "get_prng": ["C06"], "permute_within_groups": ["C02", "C04"], "permute": ["C01", "C04"], "permute_rows": ["C02", "C03"],
                 "permute_incidence_fixed_sums": ["C19"], "potential_outcomes": ["C16"]},
    "npc.py": {"fisher": ["C08", "C07"], "liptak": ["C08", "C07"], "tippett": ["C08", "C07"], "inverse_n_weight": ["C08", "C18"],
               "check_combfunc_monotonic": ["C08", "C07"], "npc": ["C07", "C08"], "sim_npc": ["C07", "C17"], "fwer_minp": ["C09"],
               "westfall_young": ["C10", "C05"], "adjust_p": ["C11"], "randomize_group": ["C17", "C04"], "randomize_in_strata": ["C17", "C04"],
               "randomize": ["C17"], "reset_seed": ["C17", "C06"], "mean_diff": ["C17"], "ttest": ["C17"], "one_way_anova": ["C17"],
               "make_test_array": ["C17"], "__init__": ["C17"]},
    "irr.py": {"compute_ts": ["C18"], "simulate_ts_dist": ["C18", "C05"], "compute_inverseweight_npc": ["C18"], "simulate_npc_dist": ["C18"]},
    "qa.py": {"find_duplicate_rows": ["C20"], "find_consecutive_duplicate_rows": ["C20"]},
    "sprt.py": {"sprt": ["C15"], "bernoulli_lh_ratio": ["C15"]},
}

CMP = {ast.Gt: ast.GtE, ast.GtE: ast.Gt, ast.Lt: ast.LtE, ast.LtE: ast.Lt, ast.Eq: ast.NotEq, ast.NotEq: ast.Eq}
BIN = {ast.Add: ast.Sub, ast.Sub: ast.Add, ast.Mult: ast.Div, ast.Div: ast.Mult}


class Sites(ast.NodeVisitor):
    """enumerate mutation sites inside one function (nested functions included)"""
    def __init__(self):
        self.sites = []

    def visit_Compare(self, node):
        for i, op in enumerate(node.ops):
            if type(op) in CMP:
                self.sites.append(("cmp", node, i))
        self.generic_visit(node)

    def visit_BinOp(self, node):
        if type(node.op) in BIN and not (isinstance(node.left, ast.Constant) and isinstance(node.left.value, str)):
            self.sites.append(("bin", node, None))
        self.generic_visit(node)

    def visit_BoolOp(self, node):
        self.sites.append(("bool", node, None)); self.generic_visit(node)

    def visit_UnaryOp(self, node):
        if isinstance(node.op, ast.Not):
            self.sites.append(("not", node, None))
        self.generic_visit(node)

    def visit_Constant(self, node):
        v = node.value
        if isinstance(v, bool):
            self.sites.append(("const", node, (not v)))
        elif isinstance(v, int) and abs(v) <= 10:
            for nv in ({0: [1], 1: [0, 2], 2: [1, 3]}.get(v, [v + 1])):
                self.sites.append(("const", node, nv))
        elif isinstance(v, float):
            self.sites.append(("const", node, v * 2 if v else 1.0))

    def visit_Call(self, node):
        for i, kw in enumerate(node.keywords):
            if kw.arg in ("plus1", "keep_dist", "seed", "prng", "axis", "alternative", "method", "combine", "equal_var", "in_place", "ddof", "stat", "reps"):
                self.sites.append(("dropkw", node, i))
        if len(node.args) >= 2 and all(isinstance(a, ast.Name) for a in node.args[:2]) and node.args[0].id != node.args[1].id:
            self.sites.append(("swapargs", node, None))
        self.generic_visit(node)

    def visit_Raise(self, node):      # messages are not interesting
        pass

    def visit_Expr(self, node):       # docstrings
        if isinstance(node.value, ast.Constant) and isinstance(node.value.value, str):
            return
        self.generic_visit(node)


def apply(kind, node, arg):
    if kind == "cmp":
        node.ops[arg] = CMP[type(node.ops[arg])]()
    elif kind == "bin":
        node.op = BIN[type(node.op)]()
    elif kind == "bool":
        node.op = ast.Or() if isinstance(node.op, ast.And) else ast.And()
    elif kind == "not":
        node.op = ast.UAdd(); node.operand = ast.Call(func=ast.Name(id="bool", ctx=ast.Load()), args=[node.operand], keywords=[])
    elif kind == "const":
        node.value = arg
    elif kind == "dropkw":
        del node.keywords[arg]
    elif kind == "swapargs":
        node.args[0], node.args[1] = node.args[1], node.args[0]


def functions(tree):
    for n in ast.walk(tree):
        if isinstance(n, (ast.FunctionDef, ast.AsyncFunctionDef)):
            yield n


def gen_mutants(only=None):
    out = []
    for fname, funcs in SCOPE.items():
        src = open(os.path.join(REPO, "permute", fname)).read()
        tree = ast.parse(src)
        top = [f for f in functions(tree)]
        for fn in top:
            if fn.name not in funcs:
                continue
            if only and only not in (fname, f"{fname}:{fn.name}"):
                continue
            s = Sites()
            for stmt in fn.body:
                s.visit(stmt)
            for k, (kind, node, arg) in enumerate(s.sites):
                out.append({"file": fname, "func": fn.name, "site": k, "kind": kind, "line": getattr(node, "lineno", fn.lineno), "props": funcs[fn.name]})
    return out


def materialise(m, dest):
    """write the mutated module into dest/permute/<file>"""
    src = open(os.path.join(REPO, "permute", m["file"])).read()
    tree = ast.parse(src)
    for fn in functions(tree):
        if fn.name == m["func"]:
            s = Sites()
            for stmt in fn.body:
                s.visit(stmt)
            if m["site"] < len(s.sites):
                kind, node, arg = s.sites[m["site"]]
                if kind == m["kind"] and getattr(node, "lineno", None) == m["line"]:
                    before = ast.unparse(node)
                    apply(kind, node, arg)
                    m["change"] = f"{before}  ->  {ast.unparse(node)}"
                    break
    else:
        raise RuntimeError("site not found")
    ast.fix_missing_locations(tree)
    open(os.path.join(dest, "permute", m["file"]), "w").write(ast.unparse(tree))


def worker_setup(i):
    v = f"{WORK}/v{i}"
    if not os.path.exists(v):
        shutil.copytree(VERIF, v, symlinks=True, ignore=shutil.ignore_patterns(".git", "replays", "evidence", "seeded"))
    return v


def run_mutant(args):
    i, m = args
    v = FREE.get()
    try:
        return _run_mutant(m, v)
    finally:
        FREE.put(v)


def _run_mutant(m, v):
    r = f"{WORK}/r_{m['id']}"
    shutil.rmtree(r, ignore_errors=True)
    shutil.copytree(REPO, r, ignore=shutil.ignore_patterns(".git", "*.pyc", "__pycache__", "data"))
    os.makedirs(os.path.join(r, "permute", "data"), exist_ok=True)
    for f in os.listdir(os.path.join(REPO, "permute", "data")):
        if f.endswith(".py"):
            shutil.copy(os.path.join(REPO, "permute", "data", f), os.path.join(r, "permute", "data", f))
    try:
        materialise(m, r)
    except Exception as e:
        m["status"] = "skipped:" + repr(e)[:80]; shutil.rmtree(r, ignore_errors=True); return m
    # does it still import?
    imp = subprocess.run(["/venv/bin/python", "-c", "import permute, permute.core, permute.npc, permute.utils, permute.stratified, permute.irr, permute.ksample, permute.qa, permute.sprt"],
                         env=dict(os.environ, PYTHONPATH=r), capture_output=True, text=True)
    if imp.returncode != 0:
        m["status"] = "does-not-import"; shutil.rmtree(r, ignore_errors=True); return m
    m["status"] = "survived"; m["ran"] = []
    for p in m["props"]:
        t0 = time.time()
        pr = subprocess.run(["./check", p], cwd=v, env=dict(os.environ, VERIF_REPO=r), capture_output=True, text=True)
        m["ran"].append([p, pr.returncode, round(time.time() - t0, 1)])
        if pr.returncode == 1 and "VIOLATION" in pr.stdout:
            why = [l.strip() for l in pr.stdout.splitlines() if l.startswith("    ")]
            m["status"] = "killed"; m["by"] = p; m["why"] = (why[0][:200] if why else "")
            m["with_input"] = any(l.startswith("VIOLATION") and "no-failing-input-found" not in l for l in pr.stdout.splitlines())
            break
        if pr.returncode not in (0, 1):
            m["status"] = f"check-error:{pr.returncode}"; m["err"] = (pr.stdout + pr.stderr)[-300:]
            break
    shutil.rmtree(r, ignore_errors=True)
    return m


if __name__ == "__main__":
    ap = argparse.ArgumentParser()
    ap.add_argument("--workers", type=int, default=8); ap.add_argument("--only"); ap.add_argument("--limit", type=int)
    ap.add_argument("--out", default=f"{WORK}/results.jsonl"); ap.add_argument("--list", action="store_true")
    ap.add_argument("--stride", type=int, default=1)
    a = ap.parse_args()
    ms = gen_mutants(a.only)[::a.stride]
    for k, m in enumerate(ms):
        m["id"] = hashlib.sha1(json.dumps([m["file"], m["func"], m["site"], m["kind"]]).encode()).hexdigest()[:10]
    if a.limit:
        ms = ms[:a.limit]
    print(len(ms), "mutants", flush=True)
    if a.list:
        for m in ms: print(m)
        sys.exit(0)
    NW = a.workers
    os.makedirs(WORK, exist_ok=True)
    for i in range(NW):
        FREE.put(worker_setup(i))
    done = 0
    seen = set()
    if os.path.exists(a.out):
        seen = {json.loads(l)["id"] for l in open(a.out)}
    ms = [m for m in ms if m["id"] not in seen]
    print(len(ms), "to run", flush=True)
    with open(a.out, "a") as out, ThreadPoolExecutor(NW) as ex:
        futs = [ex.submit(run_mutant, (i, m)) for i, m in enumerate(ms)]
        for fu in as_completed(futs):
            m = fu.result()
            out.write(json.dumps(m) + "\n"); out.flush(); done += 1
            if m["status"] != "killed":
                print(done, m["status"], m["file"], m["func"], m["line"], m.get("change"), m.get("ran"), flush=True)
    for i in range(NW):
        shutil.rmtree(f"{WORK}/v{i}", ignore_errors=True)
