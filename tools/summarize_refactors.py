#!/usr/bin/env python3
"""usage: tools/summarize_refactors.py log1 log2 ... > seeded/REFACTORINGS.md -- table of tools/eval_refactors.sh results"""
import sys, re, collections, json, os
MOD = {"R1": "core.py", "R2": "stratified.py", "R3": "npc.py (first half)", "R4": "utils.py (intervals, exact tests, get_prng)", "R5": "irr.py", "R6": "sprt.py",
       "R7": "qa.py", "R8": "ksample.py", "R9": "npc.py (second half)", "R10": "utils.py (permutation helpers)"}
res = collections.defaultdict(dict); why = {}
for f in sys.argv[1:]:
    cur = None
    for line in open(f):
        m = re.match(r"(R\d+) (C\d\d) (OK|ALARM)", line)
        if m:
            res[m.group(1)][m.group(2)] = m.group(3); cur = (m.group(1), m.group(2)); continue
        if cur and line.startswith("    ") and cur not in why:
            why[cur] = line.strip()
        if cur and line.startswith("VIOLATION") and "no-failing-input-found" not in line:
            why[(cur[0], cur[1], "input")] = True
print("# Behaviour-preserving refactorings: alarms of the 20 quick checks\n")
print("Each refactoring was written by an independent sub-agent (prompt: `tools/make_refactor_prompts.py`) under the requirement of bit-identical")
print("results, identical exceptions, identical sequences of random draws and of calls to user callables; each comes with its own differential")
print("test against the pristine module (PASS).  `tools/eval_refactors.sh` ran all 20 quick checks on every refactored tree through `VERIF_REPO`.\n")
print("| tree | module | checks OK | alarms (all `no-failing-input-found` unless noted) |\n|---|---|---|---|")
tot = ok = 0
for r in sorted(res, key=lambda x: int(x[1:])):
    n_ok = sum(1 for v in res[r].values() if v == "OK"); tot += len(res[r]); ok += n_ok
    al = [f"{c}: {why.get((r, c), '?')}" + (" **(with input)**" if why.get((r, c, 'input')) else "") for c, v in sorted(res[r].items()) if v != "OK"]
    print(f"| {r} | {MOD.get(r, '?')} | {n_ok}/{len(res[r])} | {'; '.join(al) or '—'} |")
print(f"\nTotal: {ok}/{tot} runs without alarm.  Every alarm names a source-derived obligation (translator or effect scan) that no longer")
print("recognises the restructured site; none comes from an oracle, a model/implementation comparison or a theorem.")
