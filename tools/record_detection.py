#!/usr/bin/env python3
"""For every /verif/seeded/<name>/: apply patch.diff to a scratch worktree of /repo HEAD (VERIF_REPO), run the property's quick check (and the checks listed in
EXTRA), undo, and record in meta.json which checks report a VIOLATION."""
import json, os, subprocess, sys, glob
ROOT = "/verif"
EXTRA = {"C03": ["C17"], "C04": ["C02", "C06"], "C06": ["C02", "C04"], "C17": ["C03"], "C08": ["C07"], "C01": ["C05"], "C05": ["C01"]}
names = sys.argv[1:] or sorted(os.listdir(f"{ROOT}/seeded"))
for name in names:
    d = f"{ROOT}/seeded/{name}"
    meta = json.load(open(f"{d}/meta.json"))
    prop = meta["property"]
    wt = f"/tmp/wt/det-{name}"
    subprocess.run(f"git -C /repo worktree remove --force {wt}; git -C /repo worktree add -q --detach {wt} HEAD", shell=True, capture_output=True)
    r = subprocess.run(f"git -C {wt} apply --3way {d}/patch.diff || git -C {wt} apply {d}/patch.diff", shell=True, capture_output=True, text=True)
    det = {}
    for c in [prop] + EXTRA.get(prop, []):
        p = subprocess.run(f"cd {ROOT} && VERIF_REPO={wt} timeout 3000 ./check {c} --tier quick", shell=True, capture_output=True, text=True)
        lines = [l for l in p.stdout.splitlines() if l.startswith("VIOLATION")]
        why = [l.strip() for l in p.stdout.splitlines() if l.startswith("    ")]
        det[c] = {"exit": p.returncode, "violation_lines": len(lines), "first": (why[0][:300] if why else None),
                  "with_failing_input": any("no-failing-input-found" not in l for l in lines)}
    subprocess.run(f"git -C /repo worktree remove --force {wt}; rm -f /verif/replays/*.json", shell=True, capture_output=True)
    meta["detection"] = det
    meta["detected"] = any(v["exit"] == 1 for v in det.values())
    json.dump(meta, open(f"{d}/meta.json", "w"), indent=1)
    print(name, {k: (v["exit"], v["with_failing_input"]) for k, v in det.items()}, flush=True)
