#!/bin/bash
# usage: tools/eval_refactors.sh R1 R2 ...  -- run all 20 quick checks against each behaviour-preserving refactoring (/tmp/wt/<name>)
cd "$(dirname "$0")/.."
for r in "$@"; do
  for c in C01 C02 C03 C04 C05 C06 C07 C08 C09 C10 C11 C12 C13 C14 C15 C16 C17 C18 C19 C20; do
    out=$(VERIF_REPO=/tmp/wt/$r timeout 3000 ./check $c --tier quick 2>&1 | grep -v "^KNOWN-FINDING" | grep -v "^WARNING conda")
    if echo "$out" | grep -q "^OK property"; then echo "$r $c OK"; else echo "$r $c ALARM"; echo "$out" | grep -A1 "^VIOLATION" | cut -c1-300 | head -6; fi
  done
done
echo eval-done
