COMMON_NOTE = ("Trusted: Coq 8.16.1 kernel and vm_compute; the hand-written model is tied to /repo only by the correspondence run "
               "(Python harness, case generators, Coq-term printer); NumPy/SciPy/cryptorandom primitives are modelled, not verified. ")
claim("C20", "Coq proof (multiset count theorem for sort+adjacent-equal model) + correspondence by vm_compute on exhaustive small arrays",
      "Theorems for all 2-D integer arrays: find_duplicate_rows returns every row pred(multiplicity) times and nothing else; consecutive finder equals the adjacent-pair filter; wrap-around differences vanish iff entries are equal. Model = lexsort (insertion sort on reversed-row lexicographic order) + adjacent comparison, compared with the implementation on all arrays up to 4x2 over {0,1,2} and random arrays (int64 extremes), strings included.",
      COMMON_NOTE + "np.lexsort/np.diff/np.any are modelled; as_string compared literally.", "DESIGN.md 4/C20")
claim("C14", "Coq proof (weighted-tail validity, Vandermonde/binomial totals via MathComp, guards) + exact-Q correspondence",
      "Theorems for all N,G,n,x, all rational p and all levels c/d: model tails are the textbook tails (totals C(N,n), (a+b)^n), less(x)+greater(x+1)=1, monotone in x, two-sided = min(1,2min), one-sided p-values valid (mass of outcomes with p<=c/d is <= c/d), ValueError exactly on inadmissible arguments. Exact Q model compared with scipy-based implementation at 1e-12 on exhaustive small domains.",
      COMMON_NOTE + "scipy.stats hypergeom/binom cdf/sf accuracy 1e-12 is assumed; two-sided validity is not proved (one-sided is).", "DESIGN.md 4/C14")

claim("C18", "Coq proof (pair-counting identity, range, unanimity, invariances) + exact-Q correspondence on all small binary matrices",
      "Theorems for all binary items and all R: y(y-1)+(R-y)(R-y-1) is twice the number of agreeing unordered rater pairs; the summed count lies in [0, Ns R(R-1)] with equality iff every item is unanimous; invariance under item order, rater order and 0/1 relabelling; simulate_ts_dist's reference/geq/p-value logic as a definitional theorem of the model. Model compared with compute_ts on all binary matrices R<=4, Ns<=3 (thorough Ns<=4), with simulate_ts_dist under real seeds (simulated matrices recorded), and with simulate_npc_dist's obs_npc.",
      COMMON_NOTE + "The column-sum/transpose identity is checked per case by computation, not proved; simulate_npc_dist's global p-value is covered by the NPC properties, not here.", "DESIGN.md 4/C18")

claim("C11", "Coq model with argsort as oracle input + sort-free textbook spec, both compared with the implementation by vm_compute; theorems in Properties/C11.v",
      "adjust_p model (rank_min/rank_max multipliers, running max/min along any sorting permutation) and the sort-free textbook forms are both evaluated in Coq against the implementation on all grid vectors n<=4 x 3 methods and random tied vectors n<=40; the oracle order is checked to be a sorting permutation in Coq. Theorems: see Properties/C11.v (growing).",
      COMMON_NOTE + "np.argsort tie order is not assumed (oracle input).", "DESIGN.md 4/C11")
claim("C15", "Coq model of the sequential loop + exact-Q correspondence on all 0/1 sequences up to length 8/12 with recorded prefixes; theorems in Properties/C15.v",
      "The model follows sprt's loop (index, prefix, thresholds, decision) over Q; compared exactly (prefixes examined, decision) and at 1e-9 (ratio) with the implementation on every 0/1 sequence up to length 8 (thorough 12) x 7 parameter sets and threshold-exact table functions. Theorems: see Properties/C15.v (growing).",
      COMMON_NOTE + "float ratios vs exact Q: near-threshold cases skipped and counted.", "DESIGN.md 4/C15")
claim("C07", "Coq model of npc/sim_npc over Q + correspondence (rotation of every row into the observed position); theorems in Properties/C07.v",
      "npc and sim_npc (table form) modelled exactly; implementation compared on matrices with ties, all combiners, plus1, scripted Randomizer; the property predicate (observed row counts itself, exact rank p-value, range) is evaluated on the implementation for every case. Theorems: see Properties/C07.v (growing).",
      COMMON_NOTE + "np.log/norm.ppf monotone; Liptak quantiles enter as a table of SciPy values; exact-tie cases between different vectors skipped.", "DESIGN.md 4/C07")
claim("C08", "Coq model of npc + correspondence on related-input pairs; relations asserted on the implementation; theorems in Properties/C08.v",
      "Monotonicity, relabelling and rank-invariance relations are asserted directly on implementation outputs for generated related pairs (incl. dtype crossings), both members compared with the model; combiner values vs documented formulas; shape rejections proved for the model.",
      COMMON_NOTE + "same as C07.", "DESIGN.md 4/C08")
claim("C09", "Coq model of fwer_minp (argsort oracle, nested npc, running max, scatter back) + correspondence on all orderings; theorems in Properties/C09.v",
      "fwer_minp model compared with the implementation on all orderings of 3 (thorough 3 and 4) distinct p-values x matrices x combiners and random tied vectors; step-down values recomputed independently in Fractions and required at the supplied positions; relabelling relation asserted on the implementation.",
      COMMON_NOTE + "argsort tie order is an oracle input.", "DESIGN.md 4/C09")

CORE_NOTE = COMMON_NOTE + "Randomness: the generator is a tape of bounded answers (Model/Prng.v); SHA-256/MT19937 output is assumed uniform; np.mean/np.take/np.sum are modelled exactly on exactly-representable data; 't' statistics are checked through the returned dist only."
claim("C01", "Coq tape model of the six tests + shuffle-uniformity/binomial-count theorems + correspondence with a scripted generator",
      "Each test is modelled over Q with an explicit tape (rearrangements, statistic, hit counts, p-value assembly); the model is compared with the implementation on scripted tapes (p, observed statistic, dist, the arguments every recording statistic received, number of draws) and the theorems of Properties/C01.v cover the p-value formula, uniformity of the rearrangements over the answer space and the binomial law of the hit count.",
      CORE_NOTE, "DESIGN.md 4/C01")
claim("C03", "Coq theorems that every model rearrangement is a permutation (within stratum/row) + admissibility predicates and bytewise input snapshots on the implementation",
      "Model outputs are permutations for all inputs and all tapes (Properties/C03.v); on the implementation every argument received by recording statistics is checked admissible and caller arrays are compared bytewise around every call, for the tests and the helper functions.",
      CORE_NOTE, "DESIGN.md 4/C03")
claim("C05", "Coq theorems on the p-value assembly (p = (H+c)/(reps+c), bounds, keep_dist irrelevance in the model) + exact recomputation of p from the returned dist on the implementation",
      "The p-value assembly functions of all tests are proved equal to the textbook (H+c)/(reps+c) with two-sided = min(1,2min), with bounds; on the implementation p is recomputed from the returned dist with exact rational comparisons and keep_dist twins are run on identical draws.",
      CORE_NOTE, "DESIGN.md 4/C05")
claim("C06", "Coq theorem that draws depend on sizes only (tape consumption/rearrangements independent of data and statistic) + reproducibility/isolation runs on the implementation",
      "In the model the rearrangements and the tape consumed are functions of the sizes and the tape alone; the implementation is run twice with equal seeds under different numpy global states, with int vs SHA256 seeds and replayed RandomState, and numpy's global state is compared around every seeded call.",
      CORE_NOTE, "DESIGN.md 4/C06")
claim("C16", "Coq model of potential_outcomes / two_sample_shift + theorems (shift 0 = two_sample, scalar = pair, guards) + correspondence",
      "potential_outcomes and two_sample_shift are modelled exactly; correspondence on scalar shifts (incl. non-integer shifts of integer data), inverse and non-inverse pairs, missing shift and single callables, with recording statistics; theorems in Properties/C16.v.",
      CORE_NOTE, "DESIGN.md 4/C16")

claim("C02", "Coq tape model of the stratified helpers/tests (+ faithful tail table) + correspondence with a scripted generator; documented statistics recomputed independently",
      "permute_within_groups, permute_rows chains, stratified_permutationtest, stratified_two_sample, bivariate_k_sample (exact two-way anova) are modelled with the tape; compared with the implementation on scripted tapes (outputs, recorded arguments, draws); every named statistic option is recomputed from its documented formula on the rearrangement selected by the draws; the 'less'/'two-sided' tail tables are a recorded known finding.",
      CORE_NOTE, "DESIGN.md 4/C02")
claim("C04", "Coq theorem: each selection shuffle maps the answer space bijectively onto the permutations (all sizes) + exhaustive decision-tree enumeration of the implementation on small designs",
      "shuf_uniform (MathComp): for duplicate-free input of any size, the Fisher-Yates step of cryptorandom and the move-last step of random.shuffle / sample_by_index produce every permutation exactly once over the product answer space (size n!). The implementation's full decision tree is enumerated for all small designs (every answer sequence), each leaf compared with the model and outcome weights required uniform on the admissible set, including joint uniformity over two repetitions.",
      CORE_NOTE, "DESIGN.md 4/C04")
claim("C10", "Coq model of westfall_young on the table of statistics + textbook step-down spec, both compared with the implementation; property clauses and rotation FWER count asserted on the implementation",
      "westfall_young (after the randomizations) is modelled line by line (stable sorts, successive minima/maxima, monotonicity pass); model and the textbook step-down spec are evaluated in Coq against the implementation driven by a scripted Randomizer on all tables with <=2 simulated rows x <=2 hypotheses over {-1,0,1} and random tables; adj>=raw, range, ordering, relabelling and the rotation FWER count are asserted on the implementation.",
      COMMON_NOTE + "Python's sorted() stability is modelled by an insertion sort.", "DESIGN.md 4/C10")

claim("C17", "Coq state-machine model of Experiment histories (step / run over operation lists, forks for deep copies) + invariant theorems + correspondence on random histories",
      "Experiment state (group, response, strata, generator tape) and the three operations are modelled as step : exp -> op -> result (exp * output); random histories of 1..6 operations are executed on the implementation with a scripted generator (deep copies = forks) and compared step by step (assignment after every call, returned values); invariants (labels conserved, within strata, in_place semantics) are asserted on the implementation and proved of the model (Properties/C17.v).",
      CORE_NOTE + " ttest is checked against scipy's pooled-variance t only on the implementation.", "DESIGN.md 4/C17")
claim("C19", "Coq model of permute_incidence_fixed_sums (validation, rejection loop fuelled by the tape, 4-cell swap) + theorems + correspondence on all small binary matrices; reachability by BFS on the implementation",
      "The model follows the code (row pair = first two picks of sample_by_index, candidate columns, two choices, swap on a private copy); compared with the implementation on every binary 2x2/2x3/3x2 (thorough 3x3, 2x4) matrix admitting a swap, k<=3, several dtypes and layouts; margins, binary shape, exact-k reachability (BFS), Hamming bound, input immutability, reproducibility asserted on the implementation.",
      CORE_NOTE, "DESIGN.md 4/C19")

claim("C12", "certificate checking: Gallina checker cp_check (exact binomial tails over Q at bracket end points) with soundness/monotonicity theorems, evaluated on the implementation's actual outputs",
      "brentq/binom.cdf are not modelled; every returned limit is certified inside Coq by an exact-arithmetic bracket of width 3e-9 around it whose end points have tails on either side of the level; monotonicity of the binomial tail in p and validity of the exact interval are theorems (Properties/C12.v); ordering, monotonicity in x, nesting in cl, start independence and solver keywords are asserted on the implementation.",
      COMMON_NOTE + "The numerical solver's accuracy (within 1e-9 of the exact limit) is what the certificate establishes per output, not a theorem about brentq.", "DESIGN.md 4/C12")
claim("C13", "Coq model of the integer bisection + exhaustive test-inversion spec, both compared exactly with the implementation; monotonicity/coverage theorems",
      "hypergeom_conf_interval (integer bisection over the compatible range) is modelled exactly over Q; model, textbook exhaustive inversion and implementation agree on every (N<=9 quick, 14 thorough; n; x; level; alternative; starting point); theorems in Properties/C13.v.",
      COMMON_NOTE + "scipy hypergeom.cdf accuracy; exact ties between a tail and the level are skipped.", "DESIGN.md 4/C13")
