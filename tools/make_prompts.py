#!/usr/bin/env python3
"""usage: tools/make_prompts.py <suffix> C01 C02 ... -- write /tmp/mut/<id><suffix>/prompt.txt and create a scratch worktree
/tmp/wt/<id><suffix> of /repo HEAD for an independent sub-agent that writes a property-breaking change (seeded/ rounds)."""
import json, os, subprocess, sys
props = {json.loads(l)['id']: json.loads(l) for l in open('/verif/properties.jsonl')}
TMPL = '''You are helping to evaluate a verification tool for the Python library statlab/permute (permutation tests, NumPy based). Your job: write a *subtle, realistic* code change (a plausible regression a developer could introduce) that BREAKS the semantic property below while the library still imports and its existing test suite still passes. Work ONLY inside your own scratch git worktree of the library at {wt} (never touch /repo or /verif, and do not read anything under /verif).

PROPERTY {id}: {title}
Statement: {statement}
Quantified over: {quant}
Where the relevant code lives: {files}; mechanisms: {mech} (line numbers are approximate)

Requirements for the change:
1. It modifies only files under {wt}/permute (not the tests), keeps the code importable, and the existing test suite still passes: run
   cd {wt} && PYTHONPATH={wt} /venv/bin/python -m pytest -q -p no:cacheprovider --timeout=900 -x -k "not test_data and not macnell" permute/tests
   BEFORE and AFTER your change. Some tests already fail on the untouched tree (they need network data: test_testosterone_ksample, test_worms_ksample, test_stratified_two_sample, test_hypergeom_conf_interval, everything in permute/data/tests); ignore those (drop -x if they get in the way), but every test that passes before your change must pass after it. Always run python as `PYTHONPATH={wt} PYTHONHASHSEED=0 /venv/bin/python` and check that `permute.__file__` is under {wt}. (Every shell command prints a harmless `WARNING conda...` line; ignore it.)
2. It must need something SPECIFIC to manifest -- an unusual input (ties, extreme values, particular sizes or shapes, a particular argument combination, particular seed type), a multi-step sequence of calls, or two cooperating edits that each look fine alone -- NOT something ordinary use or a casual smoke test would expose at once. Prefer a change that looks like an innocent refactor, optimisation or "bug fix".
3. It must genuinely violate the property as stated (not merely change floating-point noise, documentation or performance).
4. Write a demonstration {out}/demo.py: a small stand-alone program (run as `PYTHONPATH=<tree> PYTHONHASHSEED=0 /venv/bin/python demo.py`) that exits 0 and prints PASS on the untouched tree and exits 1 and prints FAIL on the changed tree. It must check the property itself (not the presence of your edit).
5. Save the change as {out}/patch.diff (`git -C {wt} diff > {out}/patch.diff`; it must apply with `git apply` to a clean checkout of the same commit), and write {out}/notes.md: which clause of the property breaks, what exactly is needed for it to manifest, and the commands you ran with their results (test suite before/after, demo before/after).
Leave the worktree with your change applied. In your final answer give a 5-line summary (what you changed, what it needs to manifest, test-suite result, demo result).

Additional constraint for this round: {extra}
'''
EXTRA = ("do NOT use numerical-tolerance tricks (np.isclose/allclose/round), do NOT rely on integer-vs-float dtype truncation or narrow-dtype overflow, "
         "do NOT use caches/memoisation or any state kept between calls, and do NOT key anything on the seed's value or type; earlier rounds already covered those. "
         "Earlier rounds already produced these changes, so choose a different mechanism and, if possible, a different clause of the property: {prev}. "
         "Ideas for this round: a change in a SHARED helper (permute/utils.py or a function used by several callers) that is harmless for every caller but one; "
         "the number or order of random draws consumed (an extra, skipped or re-ordered draw only under a condition on the data); a condition on the DATA VALUES "
         "(a statistic exactly equal to the observed one, all-equal groups, a zero variance, a negative observed statistic, an observed statistic of exactly 0, duplicated rows or labels, "
         "group labels that are not 0/1 or not sorted, strata given in non-sorted order); the smallest admissible sizes (reps=1, one stratum, one variable, groups of size 1, n=1, x=0 or x=n); "
         "aliasing (the returned array shares memory with an input or with another returned array, an input is modified in place); default arguments that differ from the explicit value; "
         "a comparison operator that differs only when two quantities coincide (<= vs <, argmax vs last argmax, stable vs unstable sort); a loop bound that drops the last or first iteration only for a particular parity or size.")
EXTRA_G = ("do NOT use numerical-tolerance tricks, dtype truncation/overflow, caches or state kept between calls, seed-dependent behaviour, non-finite (inf/NaN) special cases, "
           "or very large sample sizes; earlier rounds already covered those. "
           "Earlier rounds already produced these changes, so choose a different mechanism and, if possible, a different clause of the property: {prev}. "
           "Ideas for this round: GLUE code rather than the numerical core -- how arguments are normalised (np.asarray / ravel / astype / sorting by a key), how defaults are filled in, "
           "how results are packaged (order and type of returned values, a returned array that ALIASES an internal buffer or an input so that a later call or a caller's edit changes an earlier result, "
           "a view returned instead of a copy); the INTERPLAY of options that are each fine alone (alternative x plus1 x keep_dist x stat name vs callable x reps small, max_correct/ method names, in_place x seed); "
           "which exception TYPE is raised and for exactly which inputs (a guard that now also rejects a legitimate boundary input, or lets through one illegitimate class only); "
           "handling of inputs given as column vectors / 2-D with one column / Python sequences / 0-length or length-1 inputs; duplicated or negative or non-consecutive group labels, labels of mixed magnitude; "
           "an index that is off by one only in the LAST or FIRST stratum / hypothesis / row; iteration order over a dict or set of labels that silently replaces sorted order; "
           "two cooperating edits in different functions that each preserve behaviour alone.")
EXTRA_H_SIZES = ("this round has a FORCED category: the change must manifest ONLY on DEGENERATE or SMALLEST inputs that are still inside the property's domain -- "
    "reps = 1 (or the smallest reps the function accepts), samples / strata / groups of size 1, a single stratum, a single hypothesis or column where one is allowed, "
    "exactly 2 of something where 2 is the minimum, all values equal (zero variance), all p-values equal, x = 0 or x = n, n = N, k = 0 or k = 1, an empty sample where the property covers it, "
    "a matrix with one row or one column, a sequence of length 0 or 1.  On every non-degenerate input the behaviour (results and random draws) must be bit-identical to the original. "
    "Do not use tolerance tricks, dtype tricks, caches, seed-dependent behaviour or non-finite special-casing. Earlier rounds already produced these changes, so choose something different: {prev}.")
EXTRA_H_SEQ = ("this round has a FORCED category: the change must manifest ONLY through a SEQUENCE of two or more calls that share an object, while every single call on fresh objects "
    "behaves exactly as before (results and random draws bit-identical) -- e.g. the same generator instance (SHA256 or RandomState) passed to two successive calls (the second call must continue the "
    "stream: not restart it, not skip draws, not depend on what the first call computed), the same Experiment / Randomizer used by several calls, a returned array that the caller edits before the next call, "
    "an input array that a first call has left subtly changed (flags, dtype view, order) so that a second call differs, a result object that aliases an internal buffer reused by the next call. "
    "No module-level caches keyed by id() or by value (earlier rounds did that); the state must live in the objects the caller legitimately shares between calls. "
    "Do not use tolerance tricks, dtype overflow, or seed-value-dependent behaviour. Earlier rounds already produced these changes, so choose something different: {prev}.")
def main():
    global EXTRA
    suffix = sys.argv[1]
    if suffix >= "g":
        EXTRA = EXTRA_G
    if suffix in ("h", "i"):
        EXTRA = None
    if suffix == "j":
        EXTRA = ("no category is forced in this round: choose whatever realistic regression you judge MOST LIKELY TO ESCAPE a careful property-based checker that already "
                 "exercises tolerance tricks, dtypes and overflow, caches and call sequences on shared objects, seed kinds, non-finite values, degenerate sizes, label alphabets, memory layouts, "
                 "aliasing of inputs and results, and argument objects of every form.  Earlier rounds already produced these changes, so choose something different: {prev}.")
    if suffix == "k":
        EXTRA = ("this round has a FORCED category; pick ONE of the following three and say which in notes.md.  (A) TWO COOPERATING EDITS in different functions (preferably different modules, "
                 "e.g. a helper in utils.py and its caller): each edit alone must leave every result and every random draw bit-identical to the original (show this in notes.md by testing each half alone), "
                 "only the combination breaks the property.  (B) a FAILURE PATH: a call that raises (bad argument, rejected combiner, statistic that throws, KeyboardInterrupt-like exception from a user callable "
                 "in the middle of the repetition loop) leaves something behind -- a half-updated Experiment, a generator advanced or replaced, an argument array not restored, a module/global numpy setting changed "
                 "(np.seterr, print options, the global np.random state) -- so that a LATER, perfectly valid call violates the property, while any sequence of successful calls behaves exactly as before.  "
                 "(C) an INTERLEAVING of calls on TWO live objects (two Experiments, two generator instances, two Randomizers, a generator and its deepcopy) in alternation, where the calls on one object disturb "
                 "the other; each object used alone behaves exactly as before.  No id()-keyed or value-keyed module caches (earlier rounds did that).  Do not use tolerance tricks, dtype overflow, size thresholds / block "
                 "buffers / fast paths selected by a size constant, or seed-value-dependent behaviour.  Earlier rounds already produced these changes, so choose something different: {prev}.")
    if suffix == "l":
        EXTRA_L_A = ("this round has a FORCED category: TWO COOPERATING EDITS in two different functions (preferably in two different modules, e.g. a helper in utils.py "
                     "and one of its callers, or a shared p-value / ranking helper and one caller): each edit alone must leave every result and every random draw of every public function "
                     "bit-identical to the original (show this in notes.md by testing each half alone against the original on a broad battery), and only the combination breaks the property, "
                     "and only for particular inputs.  Typical shapes: a helper starts returning a view / a differently ordered or typed result that all current callers normalise, and one caller "
                     "drops its normalisation; a default value moves from the callee to the caller and one path forgets it; a flag changes meaning consistently in all but one place; an off-by-one "
                     "is compensated in the caller for all but one branch.  Do not use tolerance tricks, dtype overflow, size thresholds, caches, seed-dependent behaviour or failure paths "
                     "(state left behind by a call that raises) -- earlier rounds did those.  Earlier rounds already produced these changes, so choose something different: {prev}.")
        EXTRA_L_C = ("this round has a FORCED category: an INTERLEAVING of calls on TWO LIVE OBJECTS, while every object used alone (any sequence of calls on it, including failed calls) "
                     "behaves exactly as before, bit for bit.  Examples: two Experiments (or two Randomizers, two generator instances, a generator and its deepcopy, two result arrays, two "
                     "distr / ratings / incidence matrices of different shapes) used in alternation, where a call on one disturbs what the next call on the other returns -- through a shared "
                     "class attribute or default-argument object, a module-level scratch buffer or lookup list, an object that both were built from (the same label array, the same Randomizer, "
                     "the same callable) and that one of them now mutates, or an alias between a RESULT of one call and an internal object used by calls on the other.  No id()- or value-keyed "
                     "caches.  Do not use tolerance tricks, dtype overflow, size thresholds, seed-dependent behaviour or failure paths (state left behind by a call that raises) -- earlier rounds "
                     "did those.  Earlier rounds already produced these changes, so choose something different: {prev}.")
    for pid in sys.argv[2:]:
        p = props[pid]; name = pid + suffix
        if suffix == "l":
            EXTRA = EXTRA_L_A if int(pid[1:]) % 2 else EXTRA_L_C
        wt = f'/tmp/wt/{name}'; out = f'/tmp/mut/{name}'
        os.makedirs(out, exist_ok=True)
        prev = []
        for d in sorted(os.listdir('/verif/seeded')):
            if d.startswith(pid) and os.path.exists(f'/verif/seeded/{d}/meta.json'):
                x = json.load(open(f'/verif/seeded/{d}/meta.json')).get('needs_to_manifest', '')
                if x: prev.append('"' + x + '"')
        mech = '; '.join(m['name'] + ' @ ' + m.get('where', '') for m in p['anchors']['mechanism'])
        txt = TMPL.format(id=pid, title=p['title'], statement=p['statement'], quant=p['quantifier']['text'], files=', '.join(p['anchors']['files']),
                          mech=mech, wt=wt, out=out,
                          extra=(EXTRA if EXTRA is not None else (EXTRA_H_SIZES if (int(pid[1:]) + (suffix == "i")) % 2 else EXTRA_H_SEQ)).format(prev=' | '.join(prev)))
        open(f'{out}/prompt.txt', 'w').write(txt)
        subprocess.run(['git', '-C', '/repo', 'worktree', 'remove', '--force', wt], capture_output=True)
        subprocess.run(['git', '-C', '/repo', 'worktree', 'add', '-q', '--detach', wt, 'HEAD'], check=True, capture_output=True)
    print('ok')
main()
