#!/bin/bash
# usage: tools/try_wt.sh <tree-with-a-seeded-change> Cxx [Cyy ...]
# run checks against a scratch copy of statlab/permute (VERIF_REPO), leaving /repo and evidence/ untouched
T=$1; shift
cd "$(dirname "$0")/.."
for c in "$@"; do
  echo "== $c on $T"; VERIF_REPO=$T timeout 3000 ./check $c --tier ${TIER:-quick} 2>&1 | grep -v "^WARNING conda" | cut -c1-600 | tail -${LINES_OUT:-5}
done
