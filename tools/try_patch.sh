#!/bin/bash
# usage: tools/try_patch.sh <patch.diff> Cxx [Cyy ...]  -- apply a seeded change to /repo, run the checks, undo it
P=$1; shift
cd /repo || exit 2
if ! git diff --quiet; then echo "/repo working tree dirty"; exit 2; fi
if ! git apply --3way "$P" 2>/tmp/apply.err && ! git apply "$P" 2>>/tmp/apply.err; then echo "PATCH DOES NOT APPLY"; cat /tmp/apply.err | grep -v conda | head; git checkout -q -- . ; exit 3; fi
git reset -q 2>/dev/null
cd /verif
for c in "$@"; do
  echo "== $c on $(basename $(dirname $P))"; timeout 3000 ./check $c --tier ${TIER:-quick} 2>&1 | grep -v "^WARNING conda" | tail -${LINES_OUT:-6}
done
git -C /repo checkout -q -- . ; git -C /repo status --short | grep -v conda
rm -f /verif/replays/*.json
