#!/bin/bash
# usage: tools/confirm_seeded.sh Cxx [srcdir]   -- confirm a sub-agent's change independently in a scratch worktree of /repo HEAD:
# patch applies, demo passes without / fails with the change, the 61 baseline tests still pass. Writes /verif/seeded/<id>/.
ID=$1; SRC=${2:-/tmp/mut/$ID}; NAME=${3:-$ID}
WT=/tmp/wt/confirm-$NAME
OUT=/verif/seeded/$NAME
mkdir -p $OUT
git -C /repo worktree remove --force $WT >/dev/null 2>&1
git -C /repo worktree add -q --detach $WT HEAD 2>&1 | grep -v conda
cd $WT
PYTHONPATH=$WT PYTHONHASHSEED=0 /venv/bin/python $SRC/demo.py > $OUT/demo_without.log 2>&1; RC0=$?
if git apply --3way $SRC/patch.diff 2>/tmp/apply-$NAME.err || git apply $SRC/patch.diff 2>>/tmp/apply-$NAME.err; then APPLIES=true; else APPLIES=false; fi
git reset -q
git diff > $OUT/patch.diff
PYTHONPATH=$WT PYTHONHASHSEED=0 /venv/bin/python $SRC/demo.py > $OUT/demo_with.log 2>&1; RC1=$?
PYTHONPATH=$WT /venv/bin/python -m pytest -q -p no:cacheprovider --timeout=900 --continue-on-collection-errors --junitxml=$OUT/junit.xml > $OUT/tests_with.log 2>&1
PASSOK=$(python3 - <<PY
import xml.etree.ElementTree as ET, json
t=ET.parse('$OUT/junit.xml').getroot()
res={}
for tc in t.iter('testcase'):
    res[tc.get('classname')+'::'+tc.get('name')]=not any(c.tag in('failure','error','skipped') for c in tc)
b=json.load(open('/root/.vp/BASELINE.json'))
print(json.dumps([n for n in b['stable_pass'] if not res.get(n)]))
PY
)
cp $SRC/demo.py $OUT/demo.py
[ -f $SRC/notes.md ] && cp $SRC/notes.md $OUT/notes.md
python3 - <<PY
import json
meta={"property":"$ID","name":"$NAME","patch_applies_to_repo_head":"$APPLIES"=="true","demo_rc_without_change":$RC0,"demo_rc_with_change":$RC1,
"baseline_tests_failing_with_change":json.loads('''$PASSOK'''),
"ran":["git worktree add (scratch, /repo HEAD)","demo.py without change","git apply --3way patch.diff","demo.py with change","pytest full baseline command with change (junit compared with BASELINE.json stable_pass)"]}
try:
    old=json.load(open("$OUT/meta.json")); old.update(meta); meta=old
except Exception: pass
json.dump(meta,open("$OUT/meta.json","w"),indent=1)
print("$NAME", meta["patch_applies_to_repo_head"], "demo without/with:", $RC0, $RC1, "stable tests failing:", meta["baseline_tests_failing_with_change"])
PY
rm -f $OUT/junit.xml
cd /; git -C /repo worktree remove --force $WT
