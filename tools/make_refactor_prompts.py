#!/usr/bin/env python3
"""usage: tools/make_refactor_prompts.py R1:core R2:stratified ... -- prompts + scratch worktrees for independent sub-agents that write
BEHAVIOUR-PRESERVING refactorings (used to measure how often the checks alarm on code where every property still holds)."""
import os, subprocess, sys
TMPL = '''You are helping to evaluate a verification tool for the Python library statlab/permute (permutation tests, NumPy based). Your job: write a realistic, BEHAVIOUR-PRESERVING refactoring of permute/{mod}.py in your own scratch git worktree of the library at {wt} (never touch /repo or /verif, and do not read anything under /verif).

The refactoring should be the kind of clean-up a maintainer would merge: rename local variables, extract small private helpers, replace loops by comprehensions or vectorised NumPy (or the reverse), reorder statements that are independent, simplify conditionals, modernise idioms, tidy argument handling. Touch at least {k} different functions of the module, and make the diff substantial (60-200 changed lines), not cosmetic whitespace.

Hard requirements -- the observable behaviour must be IDENTICAL for every input:
1. every public function returns bit-identical values (same dtypes, same shapes, same Python types where a caller could tell) and raises the same exception types for the same inputs, checked in the same order where an input could trigger two of them;
2. every function consumes exactly the same stream of pseudo-random draws: the same generator methods are called with the same arguments in the same order the same number of times (so a given seed, SHA256 generator instance or numpy RandomState gives the same results before and after, and the generator is left in the same state);
3. no function modifies its arguments or touches numpy's global random state where it did not before; user-supplied callables (statistics, combining functions, likelihood ratios) are called with equal arguments, the same number of times, in the same order;
4. public names, signatures, defaults and docstrings stay as they are.
The existing test suite must give the same results before and after: run
   cd {wt} && PYTHONPATH={wt} /venv/bin/python -m pytest -q -p no:cacheprovider --timeout=900 -k "not test_data and not macnell" permute/tests
(some tests fail on the untouched tree because they need network data: test_testosterone_ksample, test_worms_ksample, test_stratified_two_sample, test_hypergeom_conf_interval; ignore those). Always run python as `PYTHONPATH={wt} PYTHONHASHSEED=0 /venv/bin/python` and check that `permute.__file__` is under {wt}. (Every shell command prints a harmless `WARNING conda...` line; ignore it.)

Also write {out}/equiv.py: a differential test that imports the ORIGINAL module source (keep a pristine copy: `git -C {wt} show HEAD:permute/{mod}.py > {out}/orig_{mod}.py`, load it with importlib under another module name inside the permute package context) and the refactored one, and compares them on at least 2000 random inputs per touched public function (small and large sizes, ties, NaNs where accepted, all option values, int seeds / generator instances, invalid inputs for the exception behaviour, recording callables to compare call sequences). It must print PASS and exit 0. If it finds a difference, fix the refactoring, do not weaken the test.

Save the change as {out}/patch.diff (`git -C {wt} diff > {out}/patch.diff`; it must apply with `git apply` to a clean checkout of the same commit) and {out}/notes.md (what you refactored, commands run and their results). Leave the worktree with your change applied. In your final answer give a 5-line summary.'''
for spec in sys.argv[1:]:
    name, mod = spec.split(":")
    wt = f"/tmp/wt/{name}"; out = f"/tmp/mut/{name}"
    os.makedirs(out, exist_ok=True)
    k = {"core": 5, "stratified": 4, "npc": 6, "utils": 6, "irr": 3, "sprt": 2, "qa": 2, "ksample": 4}[mod]
    open(f"{out}/prompt.txt", "w").write(TMPL.format(mod=mod, wt=wt, out=out, k=k))
    subprocess.run(["git", "-C", "/repo", "worktree", "remove", "--force", wt], capture_output=True)
    subprocess.run(["git", "-C", "/repo", "worktree", "add", "-q", "--detach", wt, "HEAD"], check=True, capture_output=True)
print("ok")
