#!/bin/bash
# usage: tools/sweep.sh "C01 C02 ..." "1 2 3" [tier]  -- run checks under several seeds, print non-OK lines
cd "$(dirname "$0")/.."
for s in $2; do
  for c in $1; do
    out=$(VERIF_SEED=$s ./check $c --tier ${3:-quick} 2>&1 | grep -v "^KNOWN-FINDING" | grep -v "^WARNING conda")
    if ! echo "$out" | grep -q "^OK property"; then echo "== seed $s $c"; echo "$out" | cut -c1-400 | head -8; fi
  done
done
echo sweep-done
