#!/usr/bin/env python3
"""Regenerates MANIFEST.json from the table below (run after adding a property check)."""
import json, os, glob
ROOT = os.path.dirname(os.path.dirname(os.path.abspath(__file__)))
props = {json.loads(l)["id"]: json.loads(l) for l in open(os.path.join(ROOT, "properties.jsonl"))}

# id -> (technique, level text, level note, design ref)
CLAIMS = {}
TRANSLATED = {"C05": "G3: p-value tables of two_sample_core, one_sample, corr, sim_corr, stratified_permutationtest, stratified_two_sample; G9: the 17 repetition loops of eleven functions as five-instruction programs accepted by the proved-sound checker shape_ok (Lib/LoopShape.v)",
              "C14": "G3: alternative chains of hypergeometric and binomial_p; G5: their argument guards",
              "C01": "G4: k_sample p-value formulas; G9: repetition loops of two_sample_core, one_sample, corr, k_sample", "C02": "G4: bivariate_k_sample p-value formulas; G9: repetition loops of bivariate_k_sample, sim_corr, stratified_permutationtest, stratified_two_sample",
              "C07": "G4: npc row p-values, final count, sim_npc partial p-values; G9: the repetition loop of sim_npc", "C10": "G4: westfall_young raw / permutation / adjusted p-value assignments; G9: the repetition loop of westfall_young",
              "C11": "G4: adjust_p base expressions", "C12": "G4: two-sided level split", "C13": "G4: two-sided level split; G8: the two bisection loops",
              "C15": "G4: Wald thresholds; G7: loop test and decision chain of sprt", "C18": "G4: simulate_ts_dist p-value, per-item agreement count and rho_s of compute_ts; G9: the two repetition loops of simulate_ts_dist",
              "C16": "G6: potential-outcome tables of potential_outcomes, two_sample, two_sample_shift",
              "C03": "G2: parameter-write scan", "C06": "G1: numpy global generator call sites"}


def claim(pid, technique, text, note, ref):
    CLAIMS[pid] = (technique, text, note, ref)

exec(open(os.path.join(ROOT, "tools", "claims.py")).read())

checks = []
for pid in sorted(CLAIMS):
    technique, text, note, ref = CLAIMS[pid]
    if pid in TRANSLATED:
        technique += "; + obligations regenerated from the source text on every run by a Python-AST -> Gallina translator (" + TRANSLATED[pid] + ")"
        note += " The translator (harness/translate/tables.py, fail-closed, ~300 lines) is trusted to read the formulas it names."
    checks.append({
        "property_id": pid,
        "quick_cmd": f"./check {pid} --tier quick",
        "thorough_cmd": f"./check {pid} --tier thorough",
        "evidence_file": f"/verif/evidence/{pid}.json",
        "replay_cmd_template": f"./check {pid} --replay {{path}}",
        "engine": "coq-model+correspondence",
        "level_claimed": {"category": "proof", "text": text, "design_ref": ref},
        "level_note": note,
        "technique": technique,
    })
na = [{"property_id": pid, "reason": "check not built yet in this round (planned: Coq model + theorems + correspondence, see DESIGN.md section 4)"}
      for pid in sorted(props) if pid not in CLAIMS]
m = {
    "version": 1,
    "setup_cmd": "cd /verif/coq && coq_makefile -f _CoqProject -o Makefile $(find Lib Spec Model Proofs Properties Corr -name '*.v' 2>/dev/null | sort) && timeout 3000 make -j16",
    "hooks": {"guard": "PERMUTE_VERIF", "enable": "no source hook is needed: the harness drives the unmodified library through a scripted cryptorandom.SHA256 subclass; PERMUTE_VERIF=1 is exported for uniformity only",
              "baseline_off_cmd": "cd /repo && /venv/bin/python -m pytest -ra -q -p no:cacheprovider --timeout=900 --continue-on-collection-errors",
              "source_commits": [], "add_only": True},
    "engines": [{"name": "coq-model+correspondence", "path": "/verif/check", "serves_properties": sorted(CLAIMS),
                 "kind_free_text": "Coq 8.16.1 theorems about hand-written Gallina models (coq/), tied to /repo by differential execution of model (vm_compute inside coqc) and implementation on generated cases, plus source-regenerated obligations where noted"}],
    "checks": checks,
    "not_applicable": na,
    "notes": "Genuine defects of the pinned tree were repaired by 'fix:' commits in /repo or are listed in KNOWN_FINDINGS.json; see DESIGN.md section 5.",
}
json.dump(m, open(os.path.join(ROOT, "MANIFEST.json"), "w"), indent=1)
print("claimed", sorted(CLAIMS), "not applicable", [x["property_id"] for x in na])
